#!/usr/bin/env python3
"""tools/mutate.py  — mechanical mutation run against the checks, in a scratch copy (never in /repo or /verif/engine).

Usage: tools/mutate.py <seed> <count> [file-substring]

Scratch layout (created by hand, see DESIGN §7): /tmp/mut/repo (git worktree of /repo), /tmp/mut/engine (copy of
/verif/engine with its path dependencies pointing at /tmp/mut/repo), /tmp/mut/vproot (known_findings.json, replays, evidence).

For every sampled mutant (one operator applied at one site of library code outside #[cfg(test)] modules):
  1. apply it to /tmp/mut/repo, rebuild the scratch engine  (does not build -> "stillborn")
  2. run the quick checks mapped to the file                 (first one that exits 1 -> "caught by <ID>")
  3. not caught: run the existing test suite                 (fails -> "killed by existing tests", else "SURVIVOR")
Results are appended to /tmp/mut/results.jsonl; survivors need a manual look (equivalent mutant / outside every property / gap).
"""
import json, os, random, re, subprocess, sys

REPO = "/tmp/mut/repo"
FILES = {
    "src/lex.rs": ["C01", "C03", "C06", "C02"],
    "src/lossless.rs": ["C01", "C03", "C04", "C05", "C06", "C07", "C15", "C16"],
    "src/lossy.rs": ["C06", "C08", "C16", "C20", "C02"],
    "src/convert.rs": ["C16", "C20"],
    "deb822-derive/src/lib.rs": ["C16", "C20"],
    "debian-control/src/relations.rs": ["C09", "C10", "C14", "C02"],
    "debian-control/src/lossless/relations.rs": ["C09", "C10", "C11", "C12", "C13", "C14", "C07", "C15"],
    "debian-control/src/lossy/relations.rs": ["C10", "C12", "C14", "C20", "C02"],
    "debian-control/src/pgp.rs": ["C19", "C02"],
    "debian-control/src/vcs.rs": ["C18", "C15", "C02"],
    "debian-control/src/fields.rs": ["C18", "C15", "C20", "C02"],
    "debian-control/src/lossless/control.rs": ["C15", "C07", "C02"],
    "debian-control/src/lossless/apt.rs": ["C15", "C02"],
    "debian-control/src/lossless/changes.rs": ["C15", "C18", "C02"],
    "debian-control/src/lossless/buildinfo.rs": ["C15", "C02"],
    "debian-control/src/lossy/control.rs": ["C20", "C16", "C02"],
    "debian-control/src/lossy/apt.rs": ["C20", "C16", "C02"],
    "debian-control/src/lossy/buildinfo.rs": ["C20", "C16"],
    "debian-control/src/lossy/ftpmaster.rs": ["C20", "C16"],
    "debian-copyright/src/lib.rs": ["C18", "C17", "C20"],
    "debian-copyright/src/glob.rs": ["C17"],
    "debian-copyright/src/lossless.rs": ["C17", "C15", "C02"],
    "debian-copyright/src/lossy.rs": ["C17", "C20", "C16", "C02"],
    "dep3/src/fields.rs": ["C18", "C16", "C20", "C15"],
    "dep3/src/lossless.rs": ["C15", "C18", "C02"],
    "dep3/src/lossy.rs": ["C20", "C16", "C02"],
    "apt-sources/src/lib.rs": ["C20", "C16", "C18", "C02"],
    "apt-sources/src/signature.rs": ["C18", "C20"],
}

# (regex, replacement) operators; applied to one match on one line
OPS = [
    (r" == ", " != "), (r" != ", " == "),
    (r" < ", " <= "), (r" <= ", " < "), (r" > ", " >= "), (r" >= ", " > "),
    (r" && ", " || "), (r" \|\| ", " && "),
    (r" \+ 1\b", " + 0"), (r" - 1\b", " - 0"), (r" \+ 1\b", " + 2"),
    (r"\btrue\b", "false"), (r"\bfalse\b", "true"),
    (r"\.skip\(1\)", ".skip(0)"), (r"\.skip\(1\)", ".skip(2)"),
    (r"\.is_some\(\)", ".is_none()"), (r"\.is_none\(\)", ".is_some()"),
    (r"\.is_empty\(\)", ".is_empty() == false"),
    (r"\.starts_with\(", ".ends_with("), (r"\.ends_with\(", ".starts_with("),
    (r"\.trim\(\)", ""), (r"\.trim_start\(\)", ""), (r"\.trim_end\(\)", ""),
    (r"\.first\(\)", ".last()"), (r"\.last\(\)", ".first()"), (r"\.next\(\)", ".last()"),
    (r"\.find\(", ".rfind("), (r"\.split_once\(", ".rsplit_once("),
    (r"if !", "if "), (r"\.any\(", ".all("), (r"\.all\(", ".any("),
    (r"\bSome\(WHITESPACE\)", "Some(NEWLINE)"), (r"\bNEWLINE\b", "WHITESPACE"), (r"\bCOMMA\b", "PIPE"),
    (r"\.min\(", ".max("), (r"\.max\(", ".min("),
    (r"\.take_while\(", ".skip_while("), (r"\.filter\(", ".skip_while("),
    (r"\.to_lowercase\(\)", ""), (r"\.eq_ignore_ascii_case\(", ".eq("),
    (r"\bbreak;", "continue;"), (r"\.rev\(\)", ""),
    (r"\.count\(\) > 0", ".count() > 1"), (r"\.len\(\) > 1", ".len() > 2"), (r"\.len\(\) > 0", ".len() > 1"),
    (r"\+= 1;", "+= 2;"), (r"idx \+ 1", "idx"), (r"index\(\) \+ 1", "index()"), (r"index\(\)\b(?! \+)", "index() + 1"),
]


def library_lines(path):
    """line numbers (0-based) of library code: not in #[cfg(test)] modules, not comments, not doc/attribute lines"""
    lines = open(path).read().split("\n")
    ok = []
    in_test = False
    depth_at_test = None
    depth = 0
    for i, l in enumerate(lines):
        s = l.strip()
        if s.startswith("#[cfg(test)]"):
            in_test = True
            depth_at_test = depth
        opens, closes = l.count("{"), l.count("}")
        if not in_test and s and not s.startswith("//") and not s.startswith("#[") and not s.startswith("assert") and "panic!" not in s and "unreachable!" not in s:
            ok.append(i)
        depth += opens - closes
        if in_test and depth_at_test is not None and depth <= depth_at_test and closes > 0 and depth == depth_at_test:
            in_test = False
    return lines, ok


def candidates(filt):
    out = []
    for f in FILES:
        if filt and filt not in f:
            continue
        path = os.path.join(REPO, f)
        lines, ok = library_lines(path)
        for i in ok:
            code = lines[i].split("//")[0]
            for oi, (pat, rep) in enumerate(OPS):
                for m in re.finditer(pat, code):
                    # skip string literals crudely: an odd number of quotes before the match
                    if code[: m.start()].count('"') % 2 == 1:
                        continue
                    out.append((f, i, oi, m.start(), m.end()))
    return out


def sh(cmd, timeout, env=None):
    e = dict(os.environ)
    e.update({"CARGO_NET_OFFLINE": "true"})
    if env:
        e.update(env)
    try:
        p = subprocess.run(cmd, shell=True, capture_output=True, text=True, timeout=timeout, env=e)
        return p.returncode, p.stdout + p.stderr
    except subprocess.TimeoutExpired:
        return 124, "timeout"


def main():
    seed, count = int(sys.argv[1]), int(sys.argv[2])
    filt = sys.argv[3] if len(sys.argv) > 3 else None
    subprocess.run(f"git -C {REPO} checkout -q -- .", shell=True, check=True)
    cands = candidates(filt)
    random.Random(seed).shuffle(cands)
    print(f"{len(cands)} candidate mutants; sampling {count}", flush=True)
    done = 0
    for f, i, oi, a, b in cands:
        if done >= count:
            break
        path = os.path.join(REPO, f)
        orig = open(path).read()
        lines = orig.split("\n")
        code = lines[i]
        mutated = code[:a] + re.sub(OPS[oi][0], OPS[oi][1], code[a:b], count=1) + code[b:]
        if mutated == code:
            continue
        lines[i] = mutated
        open(path, "w").write("\n".join(lines))
        rec = {"file": f, "line": i + 1, "before": code.strip(), "after": mutated.strip()}
        rc, out = sh("cd /tmp/mut/engine && CARGO_TARGET_DIR=/tmp/mut/target cargo build --release --offline", 900)
        if rc != 0:
            rec["result"] = "stillborn"
        else:
            caught = None
            for cid in FILES[f]:
                rc, out = sh(f"VP_ROOT=/tmp/mut/vproot /tmp/mut/target/release/vp-engine run {cid} quick", 1500)
                if rc == 1:
                    m = re.search(r"^assertion: (.*)$", out, re.M)
                    caught = f"{cid} ({m.group(1) if m else '?'})"
                    break
                if rc not in (0, 1):
                    caught = f"{cid} ERROR exit {rc}: " + out.strip().split("\n")[-1][:200]
                    break
            if caught:
                rec["result"] = "caught by " + caught
            else:
                rc, out = sh(f"cd {REPO} && CARGO_TARGET_DIR=/tmp/mut/rtarget cargo test --workspace --no-fail-fast --offline", 1800)
                rec["result"] = "SURVIVOR (existing suite passes, mapped checks pass)" if rc == 0 else "killed by existing tests only"
        open(path, "w").write(orig)
        # replays found on mutant trees must not accumulate in the scratch regression tier
        subprocess.run("rsync -a --delete /verif/replays/ /tmp/mut/vproot/replays/", shell=True)
        done += 1
        print(json.dumps(rec), flush=True)
        open("/tmp/mut/results.jsonl", "a").write(json.dumps(rec) + "\n")


if __name__ == "__main__":
    main()
