#!/usr/bin/env python3
"""Regenerate /verif/MANIFEST.json from the table below (run after adding a check)."""
import json, os, sys
ROOT = os.path.dirname(os.path.dirname(os.path.abspath(__file__)))
props = [json.loads(l) for l in open(os.path.join(ROOT, "properties.jsonl"))]
ids = [p["id"] for p in props]

# id -> (category, technique, level text, level note, design ref)
CLAIMED = {}
def claim(i, cat, technique, text, note, ref):
    CLAIMED[i] = dict(cat=cat, technique=technique, text=text, note=note, ref=ref)

exec(open(os.path.join(ROOT, "tools", "claims.py")).read())

checks = []
for i in ids:
    if i not in CLAIMED:
        continue
    c = CLAIMED[i]
    checks.append({
        "property_id": i,
        "quick_cmd": f"./check {i} quick",
        "thorough_cmd": f"./check {i} thorough",
        "evidence_file": f"/verif/evidence/{i}.json",
        "replay_cmd_template": f"./check {i} --replay {{path}}",
        "engine": "vp-engine",
        "level_claimed": {"category": c["cat"], "text": c["text"], "design_ref": c["ref"]},
        "level_note": c["note"],
        "technique": c["technique"],
    })
na = [{"property_id": i, "reason": "check not built yet in this round (work in progress); the design for it is in DESIGN.md §4"} for i in ids if i not in CLAIMED]
manifest = {
    "version": 1,
    "setup_cmd": "cd /verif && CARGO_NET_OFFLINE=true cargo build --release --offline --manifest-path engine/Cargo.toml",
    "hooks": {
        "guard": "none",
        "enable": "no source hooks: every observation goes through the public API of the five crates; checks build /repo's working tree as path dependencies of /verif/engine",
        "baseline_off_cmd": "cd /repo && cargo test --workspace --no-fail-fast --offline",
        "source_commits": [],
        "add_only": True,
    },
    "engines": [{
        "name": "vp-engine",
        "path": "/verif/engine",
        "serves_properties": sorted(CLAIMED.keys()),
        "kind_free_text": "property-based testing and fuzzing: proptest-generated choice tapes decoded constructively per property (16 lanes, shrinking + delta debugging), bounded-exhaustive enumeration of small spaces, model-based operation histories, fault enumeration; cases execute in watchdog-guarded worker processes; libFuzzer target in /verif/engine/fuzz for the thorough tier",
    }],
    "checks": checks,
    "not_applicable": na,
    "notes": "Exit codes of every check: 0 held on everything explored (KNOWN-FINDING lines allowed), 1 with a VIOLATION line, 2 with an ERROR line (infrastructure / inconclusive). Known findings: /verif/known_findings.json. Fix commits in /repo are listed there as 'fixed:' entries.",
}
json.dump(manifest, open(os.path.join(ROOT, "MANIFEST.json"), "w"), indent=1)
print("claimed:", sorted(CLAIMED.keys()), "not_applicable:", [x["property_id"] for x in na])
