#!/usr/bin/env python3
"""Generates engine/src/props/c15_rows.rs: one row per getter/setter pair of the lossless typed views.
Columns: view, getter, setter, Debian field name (from Policy / format specs), kind."""
import os
ROWS = []
def r(view, get, sett, field, kind): ROWS.append((view, get, sett, field, kind))

# --- debian/control source paragraph (Policy 5.2)
V='CtlSource'
r(V,'name','set_name','Source','S'); r(V,'section','set_section','Section','OS'); r(V,'priority','set_priority','Priority','PRIO_O')
r(V,'maintainer','set_maintainer','Maintainer','S'); r(V,'build_depends','set_build_depends','Build-Depends','RELREF')
r(V,'standards_version','set_standards_version','Standards-Version','S'); r(V,'homepage','set_homepage','Homepage','URLREF')
for g,f in [('vcs_git','Vcs-Git'),('vcs_svn','Vcs-Svn'),('vcs_bzr','Vcs-Bzr'),('vcs_arch','Vcs-Arch'),('vcs_svk','Vcs-Svk'),('vcs_darcs','Vcs-Darcs'),('vcs_mtn','Vcs-Mtn'),('vcs_cvs','Vcs-Cvs'),('vcs_hg','Vcs-Hg')]:
    r(V,g,'set_'+g,f,'S')
r(V,'vcs_browser','set_vcs_browser','Vcs-Browser','OS'); r(V,'uploaders','set_uploaders','Uploaders','LISTREF_COMMA')
r(V,'architecture','set_architecture','Architecture','OS'); r(V,'rules_requires_root','set_rules_requires_root','Rules-Requires-Root','BOOL_OPT')
r(V,'testsuite','set_testsuite','Testsuite','S')
# --- debian/control binary paragraph (Policy 5.3)
V='CtlBinary'
r(V,'name','set_name','Package','S'); r(V,'section','set_section','Section','OS'); r(V,'priority','set_priority','Priority','PRIO_O'); r(V,'architecture','set_architecture','Architecture','OS')
for g,f in [('depends','Depends'),('recommends','Recommends'),('suggests','Suggests'),('enhances','Enhances'),('pre_depends','Pre-Depends'),('breaks','Breaks'),('conflicts','Conflicts'),('replaces','Replaces'),('provides','Provides'),('built_using','Built-Using')]:
    r(V,g,'set_'+g,f,'OREL')
r(V,'multi_arch','set_multi_arch','Multi-Arch','MA_O'); r(V,'essential','set_essential','Essential','BOOL_CLEAR'); r(V,'description','set_description','Description','OS_MULTI'); r(V,'homepage','set_homepage','Homepage','URLREF')
# --- apt Sources stanza
V='AptSource'
for g,f in [('package','Package'),('maintainer','Maintainer'),('standards_version','Standards-Version'),('format','Format'),('vcs_browser','Vcs-Browser'),('vcs_git','Vcs-Git'),('vcs_svn','Vcs-Svn'),('vcs_hg','Vcs-Hg'),('vcs_bzr','Vcs-Bzr'),('vcs_arch','Vcs-Arch'),('vcs_svk','Vcs-Svk'),('vcs_darcs','Vcs-Darcs'),('vcs_mtn','Vcs-Mtn'),('vcs_cvs','Vcs-Cvs'),('homepage','Homepage'),('section','Section'),('architecture','Architecture'),('directory','Directory'),('testsuite','Testsuite')]:
    r(V,g,'set_'+g,f,'S')
r(V,'version','set_version','Version','VER'); r(V,'uploaders','set_uploaders','Uploaders','LISTV_COMMA'); r(V,'priority','set_priority','Priority','PRIO')
for g,f in [('build_depends','Build-Depends'),('build_depends_indep','Build-Depends-Indep'),('build_depends_arch','Build-Depends-Arch'),('build_conflicts','Build-Conflicts'),('build_conflicts_indep','Build-Conflicts-Indep'),('build_conflicts_arch','Build-Conflicts-Arch'),('binary','Binary')]:
    r(V,g,'set_'+g,f,'RELV')
r(V,'files','set_files','Files','CK_MD5'); r(V,'checksums_sha1','set_checksums_sha1','Checksums-Sha1','CK_SHA1'); r(V,'checksums_sha256','set_checksums_sha256','Checksums-Sha256','CK_SHA256'); r(V,'checksums_sha512','set_checksums_sha512','Checksums-Sha512','CK_SHA512')
# --- apt Packages stanza
V='AptPackage'
for g,f in [('name','Package'),('maintainer','Maintainer'),('architecture','Architecture'),('section','Section'),('description','Description'),('source','Source'),('description_md5','Description-md5'),('filename','Filename'),('md5sum','MD5sum'),('sha256','SHA256')]:
    r(V,g,'set_'+g,f,'S')
r(V,'version','set_version','Version','VER'); r(V,'installed_size','set_installed_size','Installed-Size','USIZE'); r(V,'size','set_size','Size','USIZE'); r(V,'priority','set_priority','Priority','PRIO'); r(V,'homepage','set_homepage','Homepage','URLREF'); r(V,'multi_arch','set_multi_arch','Multi-Arch','MA')
for g,f in [('depends','Depends'),('recommends','Recommends'),('suggests','Suggests'),('enhances','Enhances'),('pre_depends','Pre-Depends'),('breaks','Breaks'),('conflicts','Conflicts'),('replaces','Replaces'),('provides','Provides')]:
    r(V,g,'set_'+g,f,'RELV')
# --- apt Release file
V='AptRelease'
for g,f in [('origin','Origin'),('label','Label'),('suite','Suite'),('codename','Codename'),('description','Description')]:
    r(V,g,'set_'+g,f,'S')
r(V,'changelogs','set_changelogs','Changelogs','LISTV_COMMA'); r(V,'date','set_date','Date','DATE'); r(V,'valid_until','set_valid_until','Valid-Until','DATE')
r(V,'acquire_by_hash','set_acquire_by_hash','Acquire-By-Hash','BOOL_YN'); r(V,'no_support_for_architecture_all','set_no_support_for_architecture_all','No-Support-For-Architecture-All','BOOL_YN')
r(V,'architectures','set_architectures','Architectures','LISTV_SPACE'); r(V,'components','set_components','Components','LISTV_SPACE')
r(V,'checksums_md5','set_checksums_md5','MD5Sum','CK_MD5'); r(V,'checksums_sha1','set_checksums_sha1','SHA1','CK_SHA1'); r(V,'checksums_sha256','set_checksums_sha256','SHA256','CK_SHA256'); r(V,'checksums_sha512','set_checksums_sha512','SHA512','CK_SHA512')
# --- buildinfo
V='Buildinfo'
for g,f in [('source','Source'),('build_architecture','Build-Architecture'),('architecture','Architecture'),('build_origin','Build-Origin'),('build_date','Build-Date'),('format','Format'),('build_path','Build-Path')]:
    r(V,g,'set_'+g,f,'S')
r(V,'binaries','set_binaries','Binary','LISTV_SPACE'); r(V,'version','set_version','Version','VER'); r(V,'build_tainted_by','set_build_tainted_by','Build-Tainted-By','LISTV_SPACE')
r(V,'checksums_sha256','set_checksums_sha256','Checksums-Sha256','CK_SHA256'); r(V,'checksums_sha1','set_checksums_sha1','Checksums-Sha1','CK_SHA1'); r(V,'checksums_md5','set_checksums_md5','Checksums-Md5','CK_MD5')
r(V,'environment','set_environment','Environment','ENV'); r(V,'installed_build_depends','set_installed_build_depends','Installed-Build-Depends','RELV')
# --- changes
r('Changes','format','set_format','Format','S')
# --- copyright header / files paragraphs (DEP-5)
V='CopyHeader'
r(V,'upstream_name','set_upstream_name','Upstream-Name','S'); r(V,'upstream_contact','set_upstream_contact','Upstream-Contact','S'); r(V,'source','set_source','Source','S'); r(V,'files_excluded','set_files_excluded','Files-Excluded','LISTREF_LINES')
V='CopyFiles'
r(V,'copyright','set_copyright','Copyright','LISTREF_LINES_NOOPT'); r(V,'comment','set_comment','Comment','S'); r(V,'license','set_license','License','LICENSE')
# --- DEP-3
V='Dep3'
r(V,'origin','set_origin','Origin','ORIGIN'); r(V,'forwarded','set_forwarded','Forwarded','FORWARDED'); r(V,'author','set_author','Author','S'); r(V,'last_update','set_last_update','Last-Update','NAIVEDATE')
r(V,'applied_upstream','set_applied_upstream','Applied-Upstream','APPLIED'); r(V,'description','set_description','Description','S'); r(V,'long_description','set_long_description','Description','LONGDESC')
# bugs: the upstream bug (field Bug) and per-vendor bugs (field Bug-<Vendor>); one row per vendor name used
r(V,'bugs','set_upstream_bug','Bug','UPBUG'); r(V,'vendor_bugs_Debian','set_vendor_bug_Debian','Bug-Debian','VBUG:Debian'); r(V,'vendor_bugs_Ubuntu','set_vendor_bug_Ubuntu','Bug-Ubuntu','VBUG:Ubuntu'); r(V,'vendor_bugs_x','set_vendor_bug_x','Bug-x','VBUG:x')

VIEW_TY = {'CtlSource':'debian_control::lossless::control::Source','CtlBinary':'debian_control::lossless::control::Binary','AptSource':'debian_control::lossless::apt::Source','AptPackage':'debian_control::lossless::apt::Package',
 'AptRelease':'debian_control::lossless::apt::Release','Buildinfo':'debian_control::lossless::buildinfo::Buildinfo'}
def mk(view):
    if view in ('CtlSource','CtlBinary','AptSource','Buildinfo'): return f"{VIEW_TY[view]}::from(h)"
    if view in ('AptPackage','AptRelease'): return f"{VIEW_TY[view]}::new(h)"
    raise KeyError(view)

CK = {'CK_MD5':('Md5Checksum','md5sum'),'CK_SHA1':('Sha1Checksum','sha1'),'CK_SHA256':('Sha256Checksum','sha256'),'CK_SHA512':('Sha512Checksum','sha512')}

def set_expr(kind, sett):
    if kind in ('S','LONGDESC'): return f"v.{sett}(val.str_())"
    if kind in ('OS','OS_MULTI'): return f"v.{sett}(val.ostr())"
    if kind=='PRIO_O': return f"v.{sett}(val.ostr().map(|s| s.parse::<debian_control::fields::Priority>().unwrap()))"
    if kind=='PRIO': return f"v.{sett}(val.str_().parse::<debian_control::fields::Priority>().unwrap())"
    if kind=='MA_O': return f"v.{sett}(val.ostr().map(|s| s.parse::<debian_control::fields::MultiArch>().unwrap()))"
    if kind=='MA': return f"v.{sett}(val.str_().parse::<debian_control::fields::MultiArch>().unwrap())"
    if kind=='RELREF': return f"v.{sett}(&val.rel().unwrap())"
    if kind=='OREL': return f"v.{sett}(val.rel().as_ref())"
    if kind=='RELV': return f"v.{sett}(val.rel().unwrap())"
    if kind=='URLREF': return f"v.{sett}(&url::Url::parse(val.str_()).unwrap())"
    if kind in ('BOOL_OPT','BOOL_CLEAR','BOOL_YN'): return f"v.{sett}(val.bool_())"
    if kind=='VER': return f"v.{sett}(val.str_().parse::<debversion::Version>().unwrap())"
    if kind=='USIZE': return f"v.{sett}(val.usize_())"
    if kind in ('LISTREF_COMMA','LISTREF_LINES','LISTREF_LINES_NOOPT'): return f"{{ let l = val.list(); let r: Vec<&str> = l.iter().map(|s| s.as_str()).collect(); v.{sett}(&r) }}"
    if kind in ('LISTV_COMMA','LISTV_SPACE'): return f"v.{sett}(val.list())"
    if kind in CK:
        ty,f = CK[kind]
        return f"v.{sett}(val.ck().into_iter().map(|(h, s, n)| debian_control::fields::{ty} {{ {f}: h, size: s, filename: n }}).collect())"
    if kind=='DATE': return f"v.{sett}(val.date())"
    if kind=='ENV': return f"v.{sett}(val.env().into_iter().collect())"
    if kind=='LICENSE': return f"v.{sett}(&val.license())"
    if kind=='ORIGIN': return f"{{ let (c, o) = val.origin(); v.{sett}(c, o) }}"
    if kind=='FORWARDED': return f"v.{sett}(val.str_().parse::<dep3::Forwarded>().unwrap())"
    if kind=='APPLIED': return f"v.{sett}(val.str_().parse::<dep3::AppliedUpstream>().unwrap())"
    if kind=='NAIVEDATE': return f"v.{sett}(chrono::NaiveDate::parse_from_str(val.str_(), \"%Y-%m-%d\").unwrap())"
    if kind=='UPBUG': return "v.set_upstream_bug(val.str_())"
    if kind.startswith('VBUG:'): return f"v.set_vendor_bug(\"{kind[5:]}\", val.str_())"
    raise KeyError(kind)

def get_expr(kind, get):
    if kind in ('S','OS','OS_MULTI','LONGDESC'): return f"Val::Str(v.{get}().map(|s| s.to_string()))"
    if kind in ('PRIO_O','PRIO','MA_O','MA','FORWARDED','APPLIED'): return f"Val::Str(v.{get}().map(|s| s.to_string()))"
    if kind in ('RELREF','OREL','RELV'): return f"Val::Rel(v.{get}().map(|r| r.to_string()))"
    if kind=='URLREF': return f"Val::Str(v.{get}().map(|u| u.to_string()))"
    if kind=='BOOL_OPT': return f"Val::OBool(v.{get}())"
    if kind in ('BOOL_CLEAR','BOOL_YN'): return f"Val::OBool(Some(v.{get}()))"
    if kind=='VER': return f"Val::Str(v.{get}().map(|s| s.to_string()))"
    if kind=='USIZE': return f"Val::OUsize(v.{get}())"
    if kind in ('LISTREF_COMMA','LISTREF_LINES','LISTV_COMMA','LISTV_SPACE'): return f"Val::OList(v.{get}())"
    if kind=='LISTREF_LINES_NOOPT': return f"Val::OList(Some(v.{get}()))"
    if kind in CK:
        ty,f = CK[kind]
        return f"Val::Ck(v.{get}().into_iter().map(|c| (c.{f}, c.size, c.filename)).collect())"
    if kind=='DATE': return f"Val::ODate(v.{get}().map(|d| d.to_rfc2822()))"
    if kind=='ENV': return f"Val::OEnv(v.{get}().map(|m| {{ let mut e: Vec<(String, String)> = m.into_iter().collect(); e.sort(); e }}))"
    if kind=='LICENSE': return f"Val::OLicense(v.{get}())"
    if kind=='ORIGIN': return f"Val::OOrigin(v.{get}())"
    if kind=='NAIVEDATE': return f"Val::Str(v.{get}().map(|d| d.format(\"%Y-%m-%d\").to_string()))"
    if kind=='UPBUG': return "Val::Str(v.bugs().find(|(k, _)| k.is_none()).map(|(_, b)| b))"
    if kind.startswith('VBUG:'): return f"Val::Str(v.vendor_bugs(\"{kind[5:]}\").next())"
    raise KeyError(kind)

out = ["// @generated by tools/gen_c15_rows.py - do not edit", "use super::c15::{Val, View};", "use deb822_lossless::Paragraph;", "",
       "pub struct Row { pub view: View, pub getter: &'static str, pub setter: &'static str, pub field: &'static str, pub kind: &'static str, pub label: &'static str }", "",
       "pub const ROWS: &[Row] = &["]
for (view,get,sett,field,kind) in ROWS:
    out.append(f'    Row {{ view: View::{view}, getter: "{get}", setter: "{sett}", field: "{field}", kind: "{kind}", label: "row:{view}::{sett}" }},')
out.append("];\n")
# paragraph-handle based views
out.append("/// Apply the setter of row `i` through a view built on the paragraph handle `h`.")
out.append("#[allow(unused_mut)]\npub fn set_row(i: usize, h: Paragraph, val: &Val) {\n    match i {")
for i,(view,get,sett,field,kind) in enumerate(ROWS):
    if view in VIEW_TY:
        out.append(f"        {i} => {{ let mut v = {mk(view)}; {set_expr(kind,sett)}; }}")
out.append("        _ => unreachable!(\"row without a paragraph-handle view\"),\n    }\n}\n")
out.append("pub fn get_row(i: usize, h: Paragraph) -> Val {\n    match i {")
for i,(view,get,sett,field,kind) in enumerate(ROWS):
    if view in VIEW_TY:
        out.append(f"        {i} => {{ let v = {mk(view)}; {get_expr(kind,get)} }}")
out.append("        _ => unreachable!(\"row without a paragraph-handle view\"),\n    }\n}\n")
# views obtained from their own readers
for view, ty in [('Changes','debian_control::lossless::changes::Changes'),('CopyHeader','debian_copyright::lossless::Header'),('CopyFiles','debian_copyright::lossless::FilesParagraph'),('Dep3','dep3::lossless::PatchHeader')]:
    out.append(f"#[allow(unused_mut)]\npub fn set_{view.lower()}(i: usize, v: &mut {ty}, val: &Val) {{\n    match i {{")
    for i,(vw,get,sett,field,kind) in enumerate(ROWS):
        if vw==view: out.append(f"        {i} => {{ {set_expr(kind,sett)}; }}")
    out.append("        _ => unreachable!(),\n    }\n}")
    out.append(f"pub fn get_{view.lower()}(i: usize, v: &{ty}) -> Val {{\n    match i {{")
    for i,(vw,get,sett,field,kind) in enumerate(ROWS):
        if vw==view: out.append(f"        {i} => {{ {get_expr(kind,get)} }}")
    out.append("        _ => unreachable!(),\n    }\n}\n")
path=os.path.join(os.path.dirname(os.path.dirname(os.path.abspath(__file__))),'engine','src','props','c15_rows.rs')
open(path,'w').write("\n".join(out)+"\n")
print(len(ROWS),'rows ->',path)
