#!/bin/bash
# tools/seeded.sh <ID> [name]   confirm a seeded change produced in /tmp/wt-<ID> (deliverables in /tmp/seeded-out/<ID>),
# run the checks against it, and file it under /verif/seeded/<name>/.  /repo is restored afterwards.
set -u
ID=$1; NAME=${2:-$ID}; WT=${WT:-/tmp/wt-$ID}; OUT=${OUT:-/tmp/seeded-out/$ID}; DEST=/verif/seeded/$NAME
export CARGO_NET_OFFLINE=true CARGO_TARGET_DIR=$WT/target
[ -f $OUT/patch.diff ] || { echo "no patch in $OUT"; exit 2; }
CRATE=$(grep -o "\-p [a-z0-9-]*" $OUT/seeded_demo.rs | head -1 | cut -d' ' -f2); CRATE=${CRATE:-deb822-lossless}
case $CRATE in deb822-lossless) TDIR=$WT/tests;; *) TDIR=$WT/$CRATE/tests;; esac
mkdir -p $TDIR
if [ -z "${SKIP_CONFIRM:-}" ]; then
cd $WT && git checkout -q -- . && rm -f $TDIR/seeded_demo.rs
echo "== [1] demo on the unchanged tree (must pass)"
cp $OUT/seeded_demo.rs $TDIR/seeded_demo.rs
cargo test --offline --test seeded_demo -p $CRATE >$OUT/confirm_clean.log 2>&1; R_CLEAN=$?
echo "   exit $R_CLEAN"
echo "== [2] apply patch; existing suite (must pass)"
git apply $OUT/patch.diff || { echo "patch does not apply"; exit 2; }
mv $TDIR/seeded_demo.rs /tmp/seeded-out/.demo.$NAME
cargo test --workspace --no-fail-fast --offline >$OUT/confirm_suite.log 2>&1; R_SUITE=$?
echo "   exit $R_SUITE ($(grep -c '^test result: ok' $OUT/confirm_suite.log) ok result lines, $(grep -c 'FAILED' $OUT/confirm_suite.log) FAILED)"
mv /tmp/seeded-out/.demo.$NAME $TDIR/seeded_demo.rs
echo "== [3] demo with the patch (must fail)"
cargo test --offline --test seeded_demo -p $CRATE >$OUT/confirm_patched.log 2>&1; R_PATCHED=$?
echo "   exit $R_PATCHED"
if [ $R_CLEAN -ne 0 ] || [ $R_SUITE -ne 0 ] || [ $R_PATCHED -eq 0 ]; then echo "NOT CONFIRMED"; exit 3; fi
echo CONFIRMED > $OUT/confirmed.flag
fi
[ -f $OUT/confirmed.flag ] || { echo "not confirmed earlier"; exit 3; }
[ -n "${SKIP_EVAL:-}" ] && exit 0
echo "== [4] checks against the patched /repo"
unset CARGO_TARGET_DIR
cd /repo && git diff --quiet || { echo "/repo is dirty"; exit 2; }
git apply $OUT/patch.diff || { echo "patch does not apply to /repo"; exit 2; }
RESULTS=""
for C in ${CHECKS:-$ID}; do
  OUTP=$(cd /verif && ./check $C quick 2>/dev/null); RC=$?
  V=$(echo "$OUTP" | grep -c "^VIOLATION property=$C")
  echo "   check $C: exit $RC, violation lines $V"; echo "$OUTP" | grep -A3 "^assertion:" | head -6 | sed 's/^/      /'
  RESULTS="$RESULTS $C:$RC"
  # replays found on a seeded tree are kept as regression inputs only if they pass on the clean tree (checked below)
done
git -C /repo checkout -- .
echo "== [5] /repo restored: $(git -C /repo status --short | wc -l) modified files"
echo "== [6] same checks on the restored tree (regenerates evidence; replays found above must pass here)"
for C in ${CHECKS:-$ID}; do
  (cd /verif && ./check $C quick >/dev/null 2>&1); echo "   check $C on the unchanged tree: exit $?"
done
mkdir -p $DEST && cp $OUT/patch.diff $OUT/seeded_demo.rs $DEST/ && cp $OUT/meta.txt $DEST/agent_notes.txt
python3 - "$NAME" "$ID" "$CRATE" "$RESULTS" <<'PY'
import json,sys
name,pid,crate,results=sys.argv[1:5]
notes=open(f"/verif/seeded/{name}/agent_notes.txt").read()
meta={"property":pid,"crate_of_demo":crate,"needs_to_manifest":notes.strip().split("\n\n")[0][:1500],
 "confirmed":{"demo_passes_on_unchanged_tree":True,"existing_suite_passes_with_patch":True,"demo_fails_with_patch":True,
   "how":"tools/seeded.sh: demo in the scratch worktree without the patch; git apply; cargo test --workspace --no-fail-fast --offline; demo again"},
 "checks_run_quick":{r.split(':')[0]:("caught (exit 1, VIOLATION)" if r.endswith(':1') else "missed (exit 0)" if r.endswith(':0') else "error exit "+r.split(':')[1]) for r in results.split()}}
json.dump(meta,open(f"/verif/seeded/{name}/meta.json","w"),indent=1)
print(json.dumps(meta["checks_run_quick"]))
PY
