#!/bin/bash
# tools/seeded_all.sh   re-run the quick check of every filed seeded change against the current checks.
# For each /verif/seeded/<name>/patch.diff: apply to /repo, run the property's quick check (exit 1 expected), restore /repo.
# Evidence files are regenerated on the unchanged tree afterwards (tools/silence.sh quick 1).
cd /verif
git -C /repo diff --quiet || { echo "/repo is dirty"; exit 2; }
MISSED=0
for D in seeded/*/; do
  N=$(basename $D); [ -f $D/patch.diff ] || continue
  P=$(python3 -c "import json;print(json.load(open('$D/meta.json'))['property'])")
  if ! git -C /repo apply --check $PWD/$D/patch.diff 2>/dev/null; then echo "$N $P: patch no longer applies to HEAD (a later fix: commit changed its context)"; continue; fi
  git -C /repo apply $PWD/$D/patch.diff
  OUT=$(./check $P quick 2>/dev/null); RC=$?
  git -C /repo checkout -- .
  A=$(echo "$OUT" | grep -m1 "^assertion:" | cut -c1-80)
  if [ $RC -eq 1 ]; then echo "$N $P: caught ($A)"; else echo "$N $P: NOT caught (exit $RC)"; MISSED=1; fi
done
tools/silence.sh quick 1
exit $MISSED
