#!/bin/bash
# tools/silence.sh <tier> <seed>...   run every check on the current tree with the given seeds; report any non-zero exit
TIER=$1; shift
cd /verif
FAIL=0
for S in "$@"; do
  for ID in C01 C02 C03 C04 C05 C06 C07 C08 C09 C10 C11 C12 C13 C14 C15 C16 C17 C18 C19 C20; do
    OUT=$(VERIF_SEED=$S ./check $ID $TIER 2>/dev/null); RC=$?
    if [ $RC -ne 0 ]; then echo "seed $S $ID: exit $RC"; echo "$OUT" | tail -8; FAIL=1; fi
  done
  echo "seed $S done"
done
exit $FAIL
