#![no_main]
//! One libFuzzer target for every property: VP_PROP selects the property; the data is either the raw text
//! (text-quantified properties) or a choice tape decoded by the property's constructive decoder. The semantic
//! oracle runs inside the target; listed known findings are tolerated and counted.
use libfuzzer_sys::fuzz_target;

fuzz_target!(|data: &[u8]| {
    vp_engine::fuzz::fuzz_one(data);
});
