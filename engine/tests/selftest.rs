//! Self-tests of the harness's own reference models and generators (they are part of the trusted base of the checks):
//! run with `cargo test --release --offline --manifest-path /verif/engine/Cargo.toml --test selftest`.
use vp_engine::gen::{doc, rel, scan, text};
use vp_engine::tape::Tape;

fn tapes() -> Vec<Vec<u8>> {
    // a deterministic family of tapes (no RNG needed: a simple LCG over bytes)
    let mut out = vec![vec![], vec![0; 64], vec![255; 64]];
    let mut x: u32 = 12345;
    for n in 0..400 {
        let len = 20 + (n % 17) * 23;
        let mut v = Vec::with_capacity(len);
        for _ in 0..len {
            x = x.wrapping_mul(1664525).wrapping_add(1013904223);
            v.push((x >> 24) as u8);
        }
        out.push(v);
    }
    out
}

#[test]
fn scanner_reads_back_what_the_renderer_wrote() {
    for t in tapes() {
        let mut tape = Tape::new(&t);
        let d = doc::gen_doc(&mut tape, &doc::DocOpts::default());
        let r = d.render();
        let s = scan::scan(&r.text);
        assert!(s.errors.is_empty(), "{:?}: {:?}", r.text, s.errors);
        assert_eq!(s.model(), d.model(), "{:?}", r.text);
        // spans
        for (sp, spans) in s.paras.iter().zip(r.fields.iter()) {
            for (sf, span) in sp.fields.iter().zip(spans.iter()) {
                assert_eq!((sf.start, sf.end), *span, "{:?}", r.text);
            }
        }
        let comments: Vec<String> = s.comments.iter().map(|c| c.1.clone()).collect();
        let rc: Vec<String> = r.comments.iter().map(|c| c.1.clone()).collect();
        assert_eq!(comments, rc);
    }
}

#[test]
fn reference_relation_parser_inverts_the_canonical_printer() {
    for t in tapes() {
        let mut tape = Tape::new(&t);
        let (f, _text, _) = rel::gen_field(&mut tape, &rel::RelOpts { max_layout: rel::Layout::L3, ..Default::default() });
        let canon = f.canonical();
        let back = rel::ref_parse_field(&canon).expect(&canon);
        let want: Vec<rel::Item> = f.items.iter().filter(|i| !matches!(i, rel::Item::Empty)).cloned().collect();
        assert_eq!(back.items, want, "{:?}", canon);
        assert_eq!(back.canonical(), canon);
    }
}

#[test]
fn string_enumeration_is_a_bijection() {
    let alpha = ["a", "b", "é"];
    let n = text::space_size(3, 4);
    let mut seen = std::collections::HashSet::new();
    for i in 0..n {
        let s = text::nth_string(&alpha, 4, i);
        assert!(s.chars().count() <= 4);
        assert!(text::in_space(&alpha, 4, &s));
        assert!(seen.insert(s));
    }
    assert_eq!(seen.len() as u64, n);
    assert!(!text::in_space(&alpha, 4, "aaaaa"));
    assert!(!text::in_space(&alpha, 4, "x"));
}

#[test]
fn glob_reference_matcher_basics() {
    use vp_engine::props::c17::glob_match;
    let m = |p: &str, s: &str| glob_match(&p.chars().collect::<Vec<_>>(), &s.chars().collect::<Vec<_>>());
    assert!(m("*", ""));
    assert!(m("*", "a/b\nc"));
    assert!(m("?", "/"));
    assert!(!m("?", ""));
    assert!(!m("?", "ab"));
    assert!(m("a\\*b", "a*b"));
    assert!(!m("a\\*b", "axb"));
    assert!(m("\\\\", "\\"));
    assert!(m("src/*.c", "src/a/b.c"));
    assert!(!m("src/*.c", "src/a.cc"));
    assert!(m("a+", "a+"));
    assert!(!m("a+", "aa"));
    assert!(m("*a*", "bab"));
    assert!(!m("*a*", "bbb"));
}

#[test]
fn tape_maps_are_monotone_and_total() {
    for n in [1usize, 2, 3, 7, 32, 33, 100, 65536] {
        let mut last = 0;
        for b in 0..=255u8 {
            let data = [b, b];
            let mut t = Tape::new(&data);
            let v = t.below(n);
            assert!(v < n);
            assert!(v >= last, "below({}) not monotone", n);
            last = v;
        }
        let mut t = Tape::new(&[]);
        assert_eq!(t.below(n), 0, "an exhausted tape yields the simplest choice");
    }
}
