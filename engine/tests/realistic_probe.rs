//! Not a check: a probe that calls every getter row of the paragraph-handle views on realistic stanzas (written from
//! the format manuals) and reports getters that panic. Run: cargo test --release --offline --test realistic_probe -- --nocapture --ignored
use std::str::FromStr;
use vp_engine::props::c15::View;
use vp_engine::props::c15_rows::{get_row, ROWS};

const CONTROL: &str = "Source: dulwich\nMaintainer: Debian Python Team <team+python@tracker.debian.org>\nUploaders: Jelmer Vernooij <jelmer@debian.org>,\n Another Person <a@b.org>\nSection: python\nPriority: optional\nBuild-Depends: debhelper-compat (= 13),\n dh-sequence-python3,\n python3-all-dev (>= 3.9),\n python3-setuptools <!nocheck>\nBuild-Depends-Indep: python3-sphinx <!nodoc>\nStandards-Version: 4.6.2\nHomepage: https://www.dulwich.io/\nVcs-Git: https://salsa.debian.org/python-team/packages/dulwich.git -b debian/unstable\nVcs-Browser: https://salsa.debian.org/python-team/packages/dulwich\nRules-Requires-Root: no\nTestsuite: autopkgtest-pkg-python\n\nPackage: python3-dulwich\nArchitecture: any\nMulti-Arch: same\nSection: python\nPriority: optional\nEssential: no\nPre-Depends: ${misc:Pre-Depends}\nDepends: ${misc:Depends}, ${python3:Depends}, ${shlibs:Depends}, python3-urllib3 (>= 1.25)\nRecommends: python3-fastimport\nSuggests: python3-paramiko | python3-gpg\nBreaks: bzr-git (<< 0.6.13~)\nProvides: ${python3:Provides}\nHomepage: https://www.dulwich.io/\nDescription: Python Git library\n Dulwich is a Python implementation of the file formats and protocols\n used by the Git version control system.\n .\n This package contains the Python 3 module.\n";

const APT_SOURCE: &str = "Package: cvsd\nBinary: cvsd\nVersion: 1.0.24\nMaintainer: Arthur de Jong <adejong@debian.org>\nBuild-Depends: debhelper (>= 9), po-debconf\nArchitecture: any\nStandards-Version: 3.9.3\nFormat: 3.0 (native)\nFiles:\n b7a7d67a02974c52c408fdb5e118406d 890 cvsd_1.0.24.dsc\n b4a02bb6a1f00c2d2c0c5d6f7bc9d8a0 258139 cvsd_1.0.24.tar.gz\nVcs-Browser: http://arthurdejong.org/viewvc/cvsd/\nVcs-Cvs: :pserver:anonymous@arthurdejong.org:/arthur/\nChecksums-Sha1:\n 6c2ddb72e0f2c4d5b3b8a1e7c6a2d8e3c2bdc2b1 890 cvsd_1.0.24.dsc\nChecksums-Sha256:\n 0f9c3c0e2b7a4cd4b9cb3bd4a4d8eaf6a3e2b5c9a7d5e3f1b2c4d6e8f0a1b3c5 890 cvsd_1.0.24.dsc\nHomepage: http://arthurdejong.org/cvsd/\nPackage-List:\n cvsd deb vcs optional arch=any\nDirectory: pool/main/c/cvsd\nPriority: source\nSection: vcs\n";

const APT_PACKAGE: &str = "Package: apt\nSource: apt-src (2.6.1)\nVersion: 2.6.1\nEssential: yes\nInstalled-Size: 4232\nMaintainer: APT Development Team <deity@lists.debian.org>\nArchitecture: amd64\nReplaces: apt-transport-https (<< 1.5~alpha4~), apt-utils (<< 1.3~exp2~)\nProvides: apt-transport-https (= 2.6.1)\nDepends: adduser, gpgv | gpgv2 | gpgv1, libapt-pkg6.0 (>= 2.6.1), debian-archive-keyring, libc6 (>= 2.34), libgcc-s1 (>= 3.0)\nRecommends: ca-certificates\nSuggests: apt-doc, aptitude | synaptic | wajig, dpkg-dev (>= 1.17.2), gnupg | gnupg2 | gnupg1, powermgmt-base\nBreaks: apt-transport-https (<< 1.5~alpha4~), apt-utils (<< 1.3~exp2~), aptitude (<< 0.8.10)\nDescription: commandline package manager\nDescription-md5: 9fb97a88cb7383934ef963352b53b4a7\nMulti-Arch: foreign\nHomepage: https://wiki.debian.org/Apt\nTag: admin::package-management, devel::lang:ruby, hardware::storage,\n hardware::storage:cd, implemented-in::c++\nSection: admin\nPriority: important\nFilename: pool/main/a/apt/apt_2.6.1_amd64.deb\nSize: 1373100\nMD5sum: 5cbbcca8e3f4a51e0b0c0bbd2ba8c1ab\nSHA256: 36d909fe9c2e0c3d6b6c0f2b9d6b0ab5eb3c7e5bf1e6e9e8cb9a4e1c4c4b7d1a\n";

const RELEASE: &str = "Origin: Debian\nLabel: Debian\nSuite: stable\nVersion: 12.5\nCodename: bookworm\nChangelogs: https://metadata.ftp-master.debian.org/changelogs/@CHANGEPATH@_changelog\nDate: Sat, 10 Feb 2024 11:07:25 UTC\nValid-Until: Sat, 17 Feb 2024 11:07:25 UTC\nAcquire-By-Hash: yes\nNo-Support-for-Architecture-all: Packages\nNotAutomatic: yes\nButAutomaticUpgrades: yes\nArchitectures: all amd64 arm64 armel armhf i386 mips64el mipsel ppc64el s390x\nComponents: main contrib non-free-firmware non-free\nDescription: Debian 12.5 Released 10 February 2024\nMD5Sum:\n 0ed6d4c8891eb86358b94bb35d9e4da4  1484322 contrib/Contents-all\n d0a0325a97c42fd5f66a8c3e29bcea64    98581 contrib/Contents-all.gz\nSHA256:\n 3957f28db16e3f28c7b34ae84f1c929c567de6970f3f1b95dac9b498dd80fe63  1484322 contrib/Contents-all\n";

const BUILDINFO: &str = "Format: 1.0\nSource: dulwich\nBinary: python3-dulwich python3-dulwich-dbgsym\nArchitecture: amd64\nVersion: 0.21.6-1\nChecksums-Md5:\n 5cbbcca8e3f4a51e0b0c0bbd2ba8c1ab 1373100 python3-dulwich_0.21.6-1_amd64.deb\nChecksums-Sha1:\n 6c2ddb72e0f2c4d5b3b8a1e7c6a2d8e3c2bdc2b1 1373100 python3-dulwich_0.21.6-1_amd64.deb\nChecksums-Sha256:\n 36d909fe9c2e0c3d6b6c0f2b9d6b0ab5eb3c7e5bf1e6e9e8cb9a4e1c4c4b7d1a 1373100 python3-dulwich_0.21.6-1_amd64.deb\nBuild-Origin: Debian\nBuild-Architecture: amd64\nBuild-Date: Sat, 10 Feb 2024 11:07:25 +0000\nBuild-Kernel-Version: Linux 6.1.0-17-amd64 #1 SMP PREEMPT_DYNAMIC Debian 6.1.69-1 (2023-12-30)\nBuild-Path: /build/dulwich-0.21.6\nBuild-Tainted-By:\n merged-usr-via-aliased-dirs\n usr-local-has-programs\nInstalled-Build-Depends:\n autoconf (= 2.71-3),\n automake (= 1:1.16.5-1.3),\n base-files (= 12.4+deb12u5)\nEnvironment:\n DEB_BUILD_OPTIONS=\"parallel=4\"\n LANG=\"C.UTF-8\"\n LC_ALL=\"C.UTF-8\"\n SOURCE_DATE_EPOCH=\"1700000000\"\n";

#[test]
#[ignore]
fn realistic_stanzas() {
    let mut bad = 0;
    for (view, text, idx) in [
        (View::CtlSource, CONTROL, 0usize),
        (View::CtlBinary, CONTROL, 1),
        (View::AptSource, APT_SOURCE, 0),
        (View::AptPackage, APT_PACKAGE, 0),
        (View::AptRelease, RELEASE, 0),
        (View::Buildinfo, BUILDINFO, 0),
    ] {
        let d = deb822_lossless::Deb822::from_str(text).expect("stanza parses");
        for (i, row) in ROWS.iter().enumerate() {
            if row.view != view {
                continue;
            }
            let h = d.paragraphs().nth(idx).unwrap();
            let present = h.get(row.field).is_some();
            let r = std::panic::catch_unwind(std::panic::AssertUnwindSafe(|| get_row(i, h)));
            match r {
                Err(_) => {
                    bad += 1;
                    println!("PANIC {:?}::{} (field {} present={})", view, row.getter, row.field, present);
                }
                Ok(v) => {
                    let s = format!("{:?}", v);
                    if present && (s.contains("None") && !s.contains("Some")) {
                        println!("NONE  {:?}::{} although field {} is present: {}", view, row.getter, row.field, s);
                    }
                }
            }
        }
    }
    println!("{} getters panicked", bad);
}
