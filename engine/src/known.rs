//! Known findings: genuine defects recorded (not repaired) in /verif/known_findings.json.
//! The file is read once, never written at run time.
use std::collections::BTreeMap;
use std::sync::OnceLock;

#[derive(Debug, Clone)]
pub struct Finding {
    pub id: String,
    pub properties: Vec<String>,
    pub summary: String,
}

static LISTED: OnceLock<BTreeMap<String, Finding>> = OnceLock::new();

pub fn root() -> String {
    std::env::var("VP_ROOT").unwrap_or_else(|_| "/verif".to_string())
}

fn load() -> BTreeMap<String, Finding> {
    let path = format!("{}/known_findings.json", root());
    let mut out = BTreeMap::new();
    let Ok(text) = std::fs::read_to_string(&path) else {
        return out;
    };
    let v: serde_json::Value = match serde_json::from_str(&text) {
        Ok(v) => v,
        Err(e) => {
            eprintln!("ERROR: {} does not parse: {}", path, e);
            std::process::exit(2);
        }
    };
    if let Some(arr) = v.get("findings").and_then(|f| f.as_array()) {
        for f in arr {
            let id = f["id"].as_str().unwrap_or("").to_string();
            if id.is_empty() {
                continue;
            }
            let properties = f["properties"]
                .as_array()
                .map(|a| {
                    a.iter()
                        .filter_map(|x| x.as_str().map(|s| s.to_string()))
                        .collect()
                })
                .unwrap_or_default();
            let summary = f["summary"].as_str().unwrap_or("").to_string();
            out.insert(
                id.clone(),
                Finding {
                    id,
                    properties,
                    summary,
                },
            );
        }
    }
    out
}

pub fn all() -> &'static BTreeMap<String, Finding> {
    LISTED.get_or_init(load)
}

pub fn is_listed(id: &str) -> bool {
    all().contains_key(id)
}

pub fn for_property(pid: &str) -> Vec<Finding> {
    all()
        .values()
        .filter(|f| f.properties.iter().any(|p| p == pid))
        .cloned()
        .collect()
}
