//! vp-engine: property-based testing / fuzzing engine for the listed properties of deb822-lossless.
//! See /verif/DESIGN.md.
pub mod evidence;
pub mod fuzz;
pub mod gen;
pub mod known;
pub mod props;
pub mod runner;
pub mod tape;
pub mod worker;

use std::collections::BTreeSet;
use tape::Tape;

#[derive(Clone, Copy, PartialEq, Eq, Debug)]
pub enum Tier {
    Quick,
    Thorough,
}

impl Tier {
    pub fn name(self) -> &'static str {
        match self {
            Tier::Quick => "quick",
            Tier::Thorough => "thorough",
        }
    }
}

/// A failed assertion of a property's oracle.
#[derive(Debug, Clone)]
pub struct Failure {
    pub assertion: String,
    pub message: String,
}

pub type CheckResult = Result<(), Failure>;

#[macro_export]
macro_rules! ensure {
    ($cond:expr, $aid:expr, $($fmt:tt)*) => {
        if !($cond) {
            return Err($crate::Failure { assertion: $aid.to_string(), message: format!($($fmt)*) });
        }
    };
}

#[macro_export]
macro_rules! ensure_eq {
    ($a:expr, $b:expr, $aid:expr, $($fmt:tt)*) => {
        {
            let (__a, __b) = (&$a, &$b);
            if __a != __b {
                return Err($crate::Failure { assertion: $aid.to_string(),
                    message: format!("{}: got {:?}, expected {:?}", format!($($fmt)*), __a, __b) });
            }
        }
    };
}

pub fn fail<T>(aid: &str, msg: String) -> Result<T, Failure> {
    Err(Failure {
        assertion: aid.to_string(),
        message: msg,
    })
}

/// Per-case context: labels for the evidence histogram, the non-triviality verdict, the case hash,
/// and which known findings are listed (so decoders can exclude their triggers by construction).
/// Set by the libFuzzer front-end (see `Ctx::light`).
pub static LIGHT_MODE: std::sync::atomic::AtomicBool = std::sync::atomic::AtomicBool::new(false);

pub struct Ctx {
    /// true under the coverage-guided front-end: decoders skip their rare very large cases there (the fuzzer would learn to
    /// produce them all the time, and every execution would cost seconds)
    pub light: bool,
    /// true in the main budget: decoders avoid triggers of listed known findings.
    pub avoid_known: bool,
    pub labels: BTreeSet<&'static str>,
    pub nontrivial: bool,
    /// the case also belongs to a bounded-exhaustive space of the same run (not counted twice).
    pub dup_of_enum: bool,
    pub hash: u64,
    /// number of generator decisions that were diverted because of a listed known finding
    pub excluded_known: u32,
    /// oracle evaluations performed inside this case beyond the case itself (e.g. every fault of a fault
    /// enumeration applied to one generated message)
    pub inner_evaluations: u32,
}

impl Ctx {
    pub fn new(avoid_known: bool) -> Self {
        Ctx {
            light: LIGHT_MODE.load(std::sync::atomic::Ordering::Relaxed),
            avoid_known,
            labels: BTreeSet::new(),
            nontrivial: false,
            dup_of_enum: false,
            hash: 0,
            excluded_known: 0,
            inner_evaluations: 0,
        }
    }
    pub fn label(&mut self, l: &'static str) {
        self.labels.insert(l);
    }
    pub fn label_if(&mut self, c: bool, l: &'static str) {
        if c {
            self.labels.insert(l);
        }
    }
    /// Should the decoder avoid the trigger of finding `id`? (only when listed and in the main budget)
    pub fn avoid(&mut self, id: &str) -> bool {
        let a = self.avoid_known && known::is_listed(id);
        a
    }
    pub fn set_hash<H: std::hash::Hash>(&mut self, h: &H) {
        use std::hash::Hasher;
        let mut s = std::collections::hash_map::DefaultHasher::new();
        h.hash(&mut s);
        self.hash = s.finish();
    }
}

pub struct Space {
    pub name: String,
    pub size: u64,
    /// true when the space is a complete enumeration of a stated finite domain
    pub exhaustive: bool,
}

pub struct Budget {
    /// random cases per lane (16 lanes)
    pub cases_per_lane: u32,
    /// maximum tape length
    pub tape_max: usize,
    /// CPU seconds allowed per case
    pub cpu_s: u32,
}

/// A property implementation: constructive decoder + oracle.
pub trait PropImpl: Sync + Send + 'static {
    type Case;
    fn id(&self) -> &'static str;
    fn level(&self) -> &'static str {
        "exploration"
    }
    /// How cases are generated and what makes one non-trivial/distinct.
    fn rule(&self) -> String;
    fn assumptions(&self) -> Vec<String> {
        vec![]
    }
    /// Labels (case shapes) that every run must produce: generator-health check. A label that never occurs is listed in
    /// the evidence file and printed as a warning (a degenerate generator makes a check vacuous).
    fn expected_labels(&self) -> Vec<&'static str> {
        vec![]
    }
    fn budget(&self, tier: Tier) -> Budget;
    fn spaces(&self, _tier: Tier) -> Vec<Space> {
        vec![]
    }
    fn decode(&self, ctx: &mut Ctx, tape: &mut Tape) -> Self::Case;
    fn from_enum(&self, _ctx: &mut Ctx, _tier: Tier, _space: usize, _index: u64) -> Self::Case {
        unreachable!("no enumeration spaces")
    }
    /// Raw-text entry (libFuzzer front-end) for text-quantified properties.
    fn from_text(&self, _ctx: &mut Ctx, _text: &str) -> Option<Self::Case> {
        None
    }
    /// Classify the case: labels, nontrivial, hash. Called before check.
    fn classify(&self, ctx: &mut Ctx, case: &Self::Case);
    fn check(&self, ctx: &mut Ctx, case: &Self::Case) -> CheckResult;
    /// If this failure on this case is an instance of a known finding (by assertion id AND trigger
    /// predicate on the case), return the finding id. The runner only honours ids listed in
    /// known_findings.json.
    fn finding_of(&self, _case: &Self::Case, _failure: &Failure) -> Option<&'static str> {
        None
    }
    fn render(&self, case: &Self::Case) -> String;
}

/// Outcome of one executed case as seen by the runner.
#[derive(Debug, Clone)]
pub struct CaseReport {
    pub failure: Option<Failure>,
    pub finding: Option<String>,
    pub labels: Vec<String>,
    pub nontrivial: bool,
    pub dup_of_enum: bool,
    pub hash: u64,
    pub excluded_known: u32,
    pub inner_evaluations: u32,
    pub rendering: Option<String>,
}

/// Object-safe view used by worker and runner.
pub trait Prop: Sync + Send {
    fn id(&self) -> &'static str;
    fn level(&self) -> &'static str;
    fn rule(&self) -> String;
    fn assumptions(&self) -> Vec<String>;
    fn expected_labels(&self) -> Vec<&'static str>;
    fn budget(&self, tier: Tier) -> Budget;
    fn spaces(&self, tier: Tier) -> Vec<Space>;
    fn run_tape(&self, tape: &[u8], avoid_known: bool, render: bool) -> CaseReport;
    fn run_enum(&self, tier: Tier, space: usize, index: u64, render: bool) -> CaseReport;
    fn run_text(&self, text: &str, render: bool) -> Option<CaseReport>;
    /// decode and render only (no repository code is run): used for cases whose execution never returns
    fn render_tape(&self, tape: &[u8], avoid_known: bool) -> String;
    fn render_enum(&self, tier: Tier, space: usize, index: u64) -> String;
}

/// Run a closure; a panic becomes a Failure: `harness-panic` (infrastructure error, exit 2) when it was raised in the
/// harness's own sources, `panic` when it was raised in repository code.
fn guard<T>(f: impl FnOnce() -> T) -> Result<T, Failure> {
    match std::panic::catch_unwind(std::panic::AssertUnwindSafe(f)) {
        Ok(r) => Ok(r),
        Err(payload) => {
            let msg = if let Some(s) = payload.downcast_ref::<&str>() {
                s.to_string()
            } else if let Some(s) = payload.downcast_ref::<String>() {
                s.clone()
            } else {
                "<non-string panic payload>".to_string()
            };
            let loc = worker::LAST_PANIC_LOC.with(|c| c.borrow().clone());
            let aid = if is_harness_location(&loc) { "harness-panic" } else { "panic" };
            Err(Failure { assertion: aid.to_string(), message: format!("panicked at {}: {}", loc, msg) })
        }
    }
}

/// Report for a case that could not even be built (the decoder itself panicked).
fn undecodable(f: Failure) -> CaseReport {
    CaseReport { failure: Some(f), finding: None, labels: vec![], nontrivial: false, dup_of_enum: false, hash: 0, excluded_known: 0, inner_evaluations: 0, rendering: Some("(the case could not be decoded)".into()) }
}

fn finish<P: PropImpl>(p: &P, mut ctx: Ctx, case: P::Case, render: bool) -> CaseReport {
    if let Err(f) = guard(|| p.classify(&mut ctx, &case)) {
        return undecodable(f);
    }
    let res = match guard(|| p.check(&mut ctx, &case)) {
        Ok(r) => r,
        Err(f) => Err(f),
    };
    let (failure, finding) = match res {
        Ok(()) => (None, None),
        Err(f) => {
            let fid = p.finding_of(&case, &f).map(|s| s.to_string());
            (Some(f), fid)
        }
    };
    let rendering = if render || failure.is_some() {
        Some(guard(|| p.render(&case)).unwrap_or_else(|f| format!("(rendering failed: {})", f.message)))
    } else {
        None
    };
    CaseReport {
        failure,
        finding,
        labels: ctx.labels.iter().map(|s| s.to_string()).collect(),
        nontrivial: ctx.nontrivial,
        dup_of_enum: ctx.dup_of_enum,
        hash: ctx.hash,
        excluded_known: ctx.excluded_known,
        inner_evaluations: ctx.inner_evaluations,
        rendering,
    }
}

impl<P: PropImpl> Prop for P {
    fn id(&self) -> &'static str {
        PropImpl::id(self)
    }
    fn level(&self) -> &'static str {
        PropImpl::level(self)
    }
    fn rule(&self) -> String {
        PropImpl::rule(self)
    }
    fn assumptions(&self) -> Vec<String> {
        PropImpl::assumptions(self)
    }
    fn expected_labels(&self) -> Vec<&'static str> {
        PropImpl::expected_labels(self)
    }
    fn budget(&self, tier: Tier) -> Budget {
        PropImpl::budget(self, tier)
    }
    fn spaces(&self, tier: Tier) -> Vec<Space> {
        PropImpl::spaces(self, tier)
    }
    fn run_tape(&self, tape: &[u8], avoid_known: bool, render: bool) -> CaseReport {
        let mut ctx = Ctx::new(avoid_known);
        let mut t = Tape::new(tape);
        match guard(|| self.decode(&mut ctx, &mut t)) {
            Ok(case) => finish(self, ctx, case, render),
            Err(f) => undecodable(f),
        }
    }
    fn run_enum(&self, tier: Tier, space: usize, index: u64, render: bool) -> CaseReport {
        let mut ctx = Ctx::new(true);
        match guard(|| self.from_enum(&mut ctx, tier, space, index)) {
            Ok(case) => finish(self, ctx, case, render),
            Err(f) => undecodable(f),
        }
    }
    fn run_text(&self, text: &str, render: bool) -> Option<CaseReport> {
        let mut ctx = Ctx::new(true);
        match guard(|| self.from_text(&mut ctx, text)) {
            Ok(case) => Some(finish(self, ctx, case?, render)),
            Err(f) => Some(undecodable(f)),
        }
    }
    fn render_tape(&self, tape: &[u8], avoid_known: bool) -> String {
        let mut ctx = Ctx::new(avoid_known);
        let mut t = Tape::new(tape);
        let case = self.decode(&mut ctx, &mut t);
        self.render(&case)
    }
    fn render_enum(&self, tier: Tier, space: usize, index: u64) -> String {
        let mut ctx = Ctx::new(true);
        let case = self.from_enum(&mut ctx, tier, space, index);
        self.render(&case)
    }
}

/// Panic locations inside the harness itself are infrastructure errors (exit 2), never violations.
pub fn is_harness_location(loc: &str) -> bool {
    let here = file!(); // ".../src/lib.rs" of the engine crate, in whatever form rustc was given
    let prefix = here.strip_suffix("lib.rs").unwrap_or("src/");
    let Some(rest) = loc.strip_prefix(prefix) else {
        return false;
    };
    rest.starts_with("props/")
        || rest.starts_with("gen/")
        || ["lib.rs:", "tape.rs:", "worker.rs:", "runner.rs:", "evidence.rs:", "known.rs:", "main.rs:", "fuzz.rs:"]
            .iter()
            .any(|f| rest.starts_with(f))
}

pub fn lookup(id: &str) -> Option<Box<dyn Prop>> {
    props::lookup(id)
}

/// Deterministic 64-bit hash of anything hashable (SipHash with fixed keys).
pub fn hash64<H: std::hash::Hash>(h: &H) -> u64 {
    use std::hash::Hasher;
    let mut s = std::collections::hash_map::DefaultHasher::new();
    h.hash(&mut s);
    s.finish()
}
