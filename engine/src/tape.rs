//! Choice tapes: a case is a byte string; decoders consume it through monotone maps so that
//! "shorter tape / smaller bytes" means "simpler case" and byte-level shrinking is meaningful.
//! An exhausted tape yields zeros (the simplest alternative everywhere).

pub struct Tape<'a> {
    data: &'a [u8],
    pos: usize,
}

impl<'a> Tape<'a> {
    pub fn new(data: &'a [u8]) -> Self {
        Tape { data, pos: 0 }
    }
    pub fn byte(&mut self) -> u8 {
        let b = self.data.get(self.pos).copied().unwrap_or(0);
        self.pos += 1;
        b
    }
    pub fn exhausted(&self) -> bool {
        self.pos >= self.data.len()
    }
    pub fn consumed(&self) -> usize {
        self.pos.min(self.data.len())
    }
    /// Uniform-ish value in 0..n (n >= 1), monotone in the tape bytes (never `%`).
    pub fn below(&mut self, n: usize) -> usize {
        assert!(n >= 1);
        if n == 1 {
            return 0;
        }
        if n <= 32 {
            (self.byte() as usize * n) >> 8
        } else if n <= 65536 {
            let v = ((self.byte() as usize) << 8) | self.byte() as usize;
            (v * n) >> 16
        } else {
            // positions in very long texts: four bytes, still monotone
            assert!(n <= 1 << 31);
            let mut v: u64 = 0;
            for _ in 0..4 {
                v = (v << 8) | self.byte() as u64;
            }
            ((v * n as u64) >> 32) as usize
        }
    }
    /// Inclusive range lo..=hi; zeros give lo.
    pub fn range(&mut self, lo: usize, hi: usize) -> usize {
        lo + self.below(hi - lo + 1)
    }
    /// True with probability num/den; zeros give false.
    pub fn chance(&mut self, num: usize, den: usize) -> bool {
        let v = self.below(den);
        v >= den - num
    }
    /// "one more item?" decision placed *before each item* (instead of a count up front), so that
    /// deleting the tape bytes of one item yields a smaller, still aligned case. Forced/forbidden
    /// decisions consume nothing.
    pub fn more(&mut self, have: usize, min: usize, max: usize, num: usize, den: usize) -> bool {
        if have < min {
            true
        } else if have >= max {
            false
        } else {
            self.chance(num, den)
        }
    }
    pub fn flag(&mut self) -> bool {
        self.byte() >= 128
    }
    /// Pick from a list whose simplest alternative comes first.
    pub fn pick<'b, T>(&mut self, items: &'b [T]) -> &'b T {
        &items[self.below(items.len())]
    }
    /// Weighted pick: (weight, item); the first item is the simplest.
    pub fn weighted<T: Copy>(&mut self, items: &[(u32, T)]) -> T {
        let total: u32 = items.iter().map(|x| x.0).sum();
        let mut v = self.below(total as usize) as u32;
        for (w, it) in items {
            if v < *w {
                return *it;
            }
            v -= *w;
        }
        items[items.len() - 1].1
    }
}
