//! G-rel: relationship fields rendered from a known model (DESIGN.md §3), canonical printer and an
//! independent reference parser for canonical single-line text.
use crate::tape::Tape;

#[derive(Debug, Clone, Copy, PartialEq, Eq, PartialOrd, Ord, Hash)]
pub enum Op {
    Lt,
    Le,
    Eq,
    Ge,
    Gt,
}

impl Op {
    pub const ALL: [Op; 5] = [Op::Ge, Op::Le, Op::Eq, Op::Gt, Op::Lt];
    pub fn text(self) -> &'static str {
        match self {
            Op::Lt => "<<",
            Op::Le => "<=",
            Op::Eq => "=",
            Op::Ge => ">=",
            Op::Gt => ">>",
        }
    }
    pub fn from_text(s: &str) -> Option<Op> {
        Some(match s {
            "<<" => Op::Lt,
            "<=" => Op::Le,
            "=" => Op::Eq,
            ">=" => Op::Ge,
            ">>" => Op::Gt,
            _ => return None,
        })
    }
}

#[derive(Debug, Clone, PartialEq, Eq, PartialOrd, Ord, Hash)]
pub struct Rel {
    pub name: String,
    pub archqual: Option<String>,
    pub version: Option<(Op, String)>,
    /// (negated, name)
    pub archs: Option<Vec<(bool, String)>>,
    pub profiles: Vec<Vec<(bool, String)>>,
}

impl Rel {
    pub fn simple(name: &str) -> Rel {
        Rel { name: name.to_string(), archqual: None, version: None, archs: None, profiles: vec![] }
    }
    pub fn optional_parts(&self) -> usize {
        self.archqual.is_some() as usize + self.version.is_some() as usize + self.archs.is_some() as usize + (!self.profiles.is_empty()) as usize
    }
    pub fn canonical(&self) -> String {
        let mut s = self.name.clone();
        if let Some(q) = &self.archqual {
            s.push(':');
            s.push_str(q);
        }
        if let Some((op, v)) = &self.version {
            s.push_str(&format!(" ({} {})", op.text(), v));
        }
        if let Some(a) = &self.archs {
            s.push_str(" [");
            s.push_str(&a.iter().map(|(n, a)| format!("{}{}", if *n { "!" } else { "" }, a)).collect::<Vec<_>>().join(" "));
            s.push(']');
        }
        for g in &self.profiles {
            s.push_str(" <");
            s.push_str(&g.iter().map(|(n, a)| format!("{}{}", if *n { "!" } else { "" }, a)).collect::<Vec<_>>().join(" "));
            s.push('>');
        }
        s
    }
}

#[derive(Debug, Clone, PartialEq, Eq, Hash)]
pub enum Item {
    Entry(Vec<Rel>),
    Substvar(String),
    Empty,
}

#[derive(Debug, Clone, PartialEq, Eq, Hash, Default)]
pub struct RelField {
    pub items: Vec<Item>,
}

impl RelField {
    pub fn entries(&self) -> Vec<Vec<Rel>> {
        self.items.iter().filter_map(|i| if let Item::Entry(e) = i { Some(e.clone()) } else { None }).collect()
    }
    pub fn substvars(&self) -> Vec<String> {
        self.items.iter().filter_map(|i| if let Item::Substvar(s) = i { Some(s.clone()) } else { None }).collect()
    }
    pub fn has_substvar(&self) -> bool {
        self.items.iter().any(|i| matches!(i, Item::Substvar(_)))
    }
    pub fn has_empty(&self) -> bool {
        self.items.iter().any(|i| matches!(i, Item::Empty))
    }
    pub fn rels(&self) -> impl Iterator<Item = &Rel> {
        self.items.iter().filter_map(|i| if let Item::Entry(e) = i { Some(e.iter()) } else { None }).flatten()
    }
    /// canonical single-line text (empty entries dropped)
    pub fn canonical(&self) -> String {
        self.items
            .iter()
            .filter_map(|i| match i {
                Item::Entry(e) => Some(e.iter().map(|r| r.canonical()).collect::<Vec<_>>().join(" | ")),
                Item::Substvar(s) => Some(s.clone()),
                Item::Empty => None,
            })
            .collect::<Vec<_>>()
            .join(", ")
    }
}

pub fn canonical_entries(entries: &[Vec<Rel>]) -> String {
    entries.iter().map(|e| e.iter().map(|r| r.canonical()).collect::<Vec<_>>().join(" | ")).collect::<Vec<_>>().join(", ")
}

// ------------------------------------------------------------------------------------------
// reference parser for *canonical* text (single spaces, ", " and " | "), independent of the library

pub fn ref_parse_rel(s: &str) -> Result<Rel, String> {
    let mut rest = s;
    let name_end = rest.find(|c: char| c == ' ' || c == ':').unwrap_or(rest.len());
    let name = &rest[..name_end];
    if name.is_empty() || !name.chars().all(|c| c.is_ascii_alphanumeric() || "-.+~".contains(c)) {
        return Err(format!("bad package name in {:?}", s));
    }
    rest = &rest[name_end..];
    let mut r = Rel::simple(name);
    if let Some(x) = rest.strip_prefix(':') {
        let e = x.find(' ').unwrap_or(x.len());
        if e == 0 {
            return Err(format!("empty archqual in {:?}", s));
        }
        r.archqual = Some(x[..e].to_string());
        rest = &x[e..];
    }
    if let Some(x) = rest.strip_prefix(" (") {
        let e = x.find(')').ok_or_else(|| format!("unterminated version in {:?}", s))?;
        let inner = &x[..e];
        let (op, v) = inner.split_once(' ').ok_or_else(|| format!("bad version constraint in {:?}", s))?;
        let op = Op::from_text(op).ok_or_else(|| format!("bad operator in {:?}", s))?;
        if v.is_empty() || v.contains(' ') {
            return Err(format!("bad version in {:?}", s));
        }
        r.version = Some((op, v.to_string()));
        rest = &x[e + 1..];
    }
    let terms = |inner: &str| -> Result<Vec<(bool, String)>, String> {
        if inner.is_empty() {
            return Ok(vec![]);
        }
        inner
            .split(' ')
            .map(|t| {
                let (neg, n) = match t.strip_prefix('!') {
                    Some(n) => (true, n),
                    None => (false, t),
                };
                if n.is_empty() || !n.chars().all(|c| c.is_ascii_alphanumeric() || "-.+~".contains(c)) {
                    Err(format!("bad term {:?} in {:?}", t, s))
                } else {
                    Ok((neg, n.to_string()))
                }
            })
            .collect()
    };
    if let Some(x) = rest.strip_prefix(" [") {
        let e = x.find(']').ok_or_else(|| format!("unterminated architectures in {:?}", s))?;
        r.archs = Some(terms(&x[..e])?);
        rest = &x[e + 1..];
    }
    while let Some(x) = rest.strip_prefix(" <") {
        let e = x.find('>').ok_or_else(|| format!("unterminated profiles in {:?}", s))?;
        r.profiles.push(terms(&x[..e])?);
        rest = &x[e + 1..];
    }
    if !rest.is_empty() {
        return Err(format!("trailing text {:?} in relation {:?}", rest, s));
    }
    Ok(r)
}

/// Parse canonical field text. Empty entries are reported as Item::Empty (so callers can see
/// dangling / duplicated separators).
pub fn ref_parse_field(s: &str) -> Result<RelField, String> {
    let mut f = RelField::default();
    if s.is_empty() {
        return Ok(f);
    }
    for part in s.split(", ") {
        if part.is_empty() {
            f.items.push(Item::Empty);
        } else if part.starts_with("${") {
            if !part.ends_with('}') || part[2..part.len() - 1].contains(|c: char| !(c.is_ascii_alphanumeric() || "-.+~:".contains(c))) {
                return Err(format!("bad substvar {:?}", part));
            }
            f.items.push(Item::Substvar(part.to_string()));
        } else {
            let mut e = vec![];
            for alt in part.split(" | ") {
                e.push(ref_parse_rel(alt)?);
            }
            f.items.push(Item::Entry(e));
        }
    }
    Ok(f)
}

// ------------------------------------------------------------------------------------------
// generation

pub const NAMES: &[&str] = &["a", "b", "c", "libc6", "python3-dulwich", "g++", "x.y", "0ad", "lib-foo2.0", "z", "2048", "7zip", "4g8"];
pub const ARCHES: &[&str] = &["amd64", "i386", "any", "linux-any", "arm64", "hurd-i386", "all", "native"];
pub const PROFILES: &[&str] = &["nocheck", "stage1", "cross", "nodoc", "pkg.foo.bar"];
pub const VERSIONS: &[&str] = &["1", "1.0", "2.0-1", "1.0~rc1", "1:2.0", "0.19.0", "1:1.0~a-1+b1", "2:0", "11~", "4.5.6+dfsg-2", "1:2.0-rc1-3", "3.0-beta-2-1"];
pub const SUBSTVARS: &[&str] = &["${misc:Depends}", "${shlibs:Depends}", "${foo}", "${python3:Depends}", "${a:b:c}"];

#[derive(Clone, Copy, PartialEq, Eq, Debug)]
pub enum Layout {
    /// canonical single spaces
    L0,
    /// spaces/tabs/newlines around ',' and '|'
    L1,
    /// + spaces/tabs between tokens inside a relation
    L2,
    /// + newlines anywhere whitespace may go
    L3,
}

#[derive(Clone, Copy)]
pub struct RelOpts {
    pub max_items: usize,
    pub max_alts: usize,
    pub substvars: bool,
    pub empties: bool,
    pub max_layout: Layout,
    pub epochs: bool,
    pub negated_archs: bool,
    pub multi_term_profiles: bool,
    /// whitespace between the version and ')' (dpkg accepts it)
    pub space_before_rparen: bool,
}

impl Default for RelOpts {
    fn default() -> Self {
        RelOpts { max_items: 5, max_alts: 3, substvars: true, empties: true, max_layout: Layout::L2, epochs: true, negated_archs: true, multi_term_profiles: true, space_before_rparen: true }
    }
}

pub fn gen_name(t: &mut Tape) -> String {
    if t.chance(4, 5) {
        return t.pick(NAMES).to_string();
    }
    let first: Vec<char> = "abcxyz0123456789".chars().collect();
    let rest: Vec<char> = "abcxyz0123456789+.-".chars().collect();
    let n = t.range(1, 13);
    let mut s = String::new();
    s.push(*t.pick(&first));
    for _ in 1..n {
        s.push(*t.pick(&rest));
    }
    s
}

pub fn gen_version(t: &mut Tape, epochs: bool) -> String {
    if t.chance(3, 4) {
        let v = t.pick(VERSIONS).to_string();
        if !epochs && v.contains(':') {
            return v.split(':').last().unwrap().to_string();
        }
        return v;
    }
    let mut s = String::new();
    if epochs && t.chance(1, 3) {
        s.push_str(&format!("{}:", t.below(4)));
    }
    let chars: Vec<char> = "0123456789abz.+~".chars().collect();
    s.push(*t.pick(&['0', '1', '2', '9']));
    for _ in 0..t.below(6) {
        s.push(*t.pick(&chars));
    }
    if t.chance(1, 3) {
        // with a revision, the upstream part may itself contain hyphens (the revision starts at the last one)
        if t.chance(1, 3) {
            s.push('-');
            s.push(*t.pick(&chars));
        }
        s.push('-');
        s.push(*t.pick(&['1', '2', '0']));
        for _ in 0..t.below(4) {
            s.push(*t.pick(&chars));
        }
    }
    s
}

pub fn gen_rel(t: &mut Tape, o: &RelOpts) -> Rel {
    let mut r = Rel::simple(&gen_name(t));
    if t.chance(1, 4) {
        r.archqual = Some(t.pick(&["any", "native", "amd64", "i386"]).to_string());
    }
    if t.chance(2, 5) {
        let op = *t.pick(&Op::ALL);
        r.version = Some((op, gen_version(t, o.epochs)));
    }
    if t.chance(1, 4) {
        let neg = o.negated_archs && t.chance(1, 3);
        // Policy wants all architectures negated or none; the grammar ([!]arch ...) also admits mixed lists, which the
        // readers must report as written
        let mixed = o.negated_archs && t.chance(1, 4);
        let mut a = vec![(if mixed { t.flag() } else { neg }, t.pick(ARCHES).to_string())];
        while t.more(a.len(), 1, 4, 1, 3) {
            a.push((if mixed { t.flag() } else { neg }, t.pick(ARCHES).to_string()));
        }
        r.archs = Some(a);
    }
    while t.more(r.profiles.len(), 0, 3, 1, 5) {
        let mut g = vec![(t.chance(1, 2), t.pick(PROFILES).to_string())];
        while o.multi_term_profiles && t.more(g.len(), 1, 3, 1, 3) {
            g.push((t.chance(1, 2), t.pick(PROFILES).to_string()));
        }
        r.profiles.push(g);
    }
    r
}

fn ws(t: &mut Tape, layout: Layout, level: Layout, default: &str) -> String {
    // level: the layout class from which free whitespace is allowed at this position
    let allowed = (layout as u8) >= (level as u8);
    if !allowed || !t.chance(1, 3) {
        return default.to_string();
    }
    let nl_ok = level == Layout::L1 || layout == Layout::L3;
    let n = t.range(0, 3);
    let mut s = String::new();
    for _ in 0..n {
        s.push_str(match t.below(if nl_ok { 6 } else { 4 }) {
            0 | 1 | 2 => " ",
            3 => "\t",
            4 => "\n",
            _ => "\n ",
        });
    }
    s
}

pub fn render_rel(t: &mut Tape, r: &Rel, layout: Layout, o: &RelOpts) -> String {
    let l2 = Layout::L2;
    let mut s = r.name.clone();
    if let Some(q) = &r.archqual {
        s.push(':');
        s.push_str(q);
    }
    if let Some((op, v)) = &r.version {
        s.push_str(&ws(t, layout, l2, " "));
        s.push('(');
        s.push_str(&ws(t, layout, l2, ""));
        s.push_str(op.text());
        s.push_str(&ws(t, layout, l2, " "));
        s.push_str(v);
        if o.space_before_rparen {
            s.push_str(&ws(t, layout, l2, ""));
        }
        s.push(')');
    }
    let terms = |t: &mut Tape, s: &mut String, g: &[(bool, String)]| {
        s.push_str(&ws(t, layout, l2, ""));
        for (i, (neg, a)) in g.iter().enumerate() {
            if i > 0 {
                let w = ws(t, layout, l2, " ");
                s.push_str(if w.is_empty() { " " } else { &w });
            }
            if *neg {
                s.push('!');
            }
            s.push_str(a);
        }
        s.push_str(&ws(t, layout, l2, ""));
    };
    if let Some(a) = &r.archs {
        s.push_str(&ws(t, layout, l2, " "));
        s.push('[');
        terms(t, &mut s, a);
        s.push(']');
    }
    for g in &r.profiles {
        s.push_str(&ws(t, layout, l2, " "));
        s.push('<');
        terms(t, &mut s, g);
        s.push('>');
    }
    s
}

/// Generate a field model together with one rendering of it.
pub fn gen_field(t: &mut Tape, o: &RelOpts) -> (RelField, String, Layout) {
    let layout = match t.below(1 + o.max_layout as usize) {
        0 => Layout::L0,
        1 => Layout::L1,
        2 => Layout::L2,
        _ => Layout::L3,
    };
    let mut f = RelField::default();
    // now and then a long field (well beyond one 79-column line), where the caller allows at least four items
    let max_items = if o.max_items >= 4 && t.chance(1, 30) { 40 } else { o.max_items };
    let (num, den) = if max_items > o.max_items { (24, 25) } else { (2, 3) };
    while t.more(f.items.len(), 0, max_items, num, den) {
        let k = t.below(12);
        if k == 11 && o.empties {
            f.items.push(Item::Empty);
        } else if k == 10 && o.substvars {
            f.items.push(Item::Substvar(t.pick(SUBSTVARS).to_string()));
        } else {
            let mut e = vec![gen_rel(t, o)];
            while t.more(e.len(), 1, o.max_alts, 1, 4) {
                e.push(gen_rel(t, o));
            }
            f.items.push(Item::Entry(e));
        }
    }
    // a single Empty item is the text "" or whitespace: normalise the model so that empties only
    // occur next to a comma
    if f.items.len() == 1 && f.items[0] == Item::Empty {
        f.items.clear();
    }
    let text = render_field(t, &f, layout, o);
    (f, text, layout)
}

pub fn render_field(t: &mut Tape, f: &RelField, layout: Layout, o: &RelOpts) -> String {
    let l1 = Layout::L1;
    let mut s = String::new();
    s.push_str(&ws(t, layout, l1, ""));
    for (i, it) in f.items.iter().enumerate() {
        if i > 0 {
            s.push_str(&ws(t, layout, l1, ""));
            s.push(',');
            s.push_str(&ws(t, layout, l1, " "));
        }
        match it {
            Item::Empty => {}
            Item::Substvar(v) => s.push_str(v),
            Item::Entry(e) => {
                for (j, r) in e.iter().enumerate() {
                    if j > 0 {
                        s.push_str(&ws(t, layout, l1, " "));
                        s.push('|');
                        s.push_str(&ws(t, layout, l1, " "));
                    }
                    s.push_str(&render_rel(t, r, layout, o));
                }
            }
        }
    }
    // a trailing Empty item renders as a trailing comma (already emitted); trailing whitespace:
    s.push_str(&ws(t, layout, l1, ""));
    s
}
