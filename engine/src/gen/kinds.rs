//! Field tables of the typed document kinds (written from Debian Policy / deb822(5) / DEP-3 / DEP-5 /
//! sources.list(5) and the declared field types), value families, and generators of well-formed and
//! structurally invalid documents of each kind.
use crate::gen::doc::{self, Doc, Field, GapLine, Para};
use crate::gen::rel::{self, Layout, RelOpts};
use crate::tape::Tape;

#[derive(Debug, Clone, Copy, PartialEq, Eq)]
pub enum Fam {
    Word,
    /// free single-line text
    Line,
    /// first line + continuation lines (description-like)
    Multi,
    Version,
    Url,
    /// relationship field read into lossy::Relations
    Rel,
    Priority,
    MultiArch,
    /// bool through FromStr/ToString: "true"/"false"
    BoolTF,
    /// bool through a yes/no codec
    YesNo,
    UInt,
    /// whitespace separated words (serialised with single spaces)
    Words,
    /// one item per line (first line empty)
    Lines,
    /// whitespace separated file patterns, on one or several lines (serialised one per line)
    Patterns,
    /// KEY=value lines
    Env,
    Path,
    /// YYYY-MM-DD
    Date,
    Origin,
    Forwarded,
    AppliedUpstream,
    /// DEP-5 licence: short name, optionally followed by text lines
    License,
    /// deb / deb-src
    RepoTypes,
    /// space separated URLs
    Urls,
    YesNoForce,
    /// path or PGP key block
    Signature,
    VcsGit,
}

#[derive(Debug, Clone, Copy)]
pub struct Spec {
    pub name: &'static str,
    pub mandatory: bool,
    pub fam: Fam,
}

const fn m(name: &'static str, fam: Fam) -> Spec {
    Spec { name, mandatory: true, fam }
}
const fn o(name: &'static str, fam: Fam) -> Spec {
    Spec { name, mandatory: false, fam }
}

use Fam::*;

pub const CONTROL_SOURCE: &[Spec] = &[
    m("Source", Word), o("Build-Depends", Rel), o("Build-Depends-Indep", Rel), o("Build-Depends-Arch", Rel), o("Build-Conflicts", Rel), o("Build-Conflicts-Indep", Rel), o("Build-Conflicts-Arch", Rel),
    o("Standards-Version", Word), o("Homepage", Url), o("Section", Word), o("Priority", Priority), o("Maintainer", Line), o("Uploaders", Line), o("Architecture", Line), o("Rules-Requires-Root", YesNo),
    o("Testsuite", Word), o("Vcs-Git", VcsGit), o("Vcs-Browser", Url),
];
pub const CONTROL_BINARY: &[Spec] = &[
    m("Package", Word), o("Depends", Rel), o("Recommends", Rel), o("Suggests", Rel), o("Enhances", Rel), o("Pre-Depends", Rel), o("Breaks", Rel), o("Conflicts", Rel), o("Replaces", Rel), o("Provides", Rel),
    o("Built-Using", Rel), o("Architecture", Line), o("Section", Word), o("Priority", Priority), o("Multi-Arch", MultiArch), o("Essential", YesNo), o("Description", Multi),
];
pub const APT_RELEASE: &[Spec] = &[
    m("Codename", Word), m("Components", Words), m("Architectures", Words), m("Description", Line), m("Origin", Word), m("Label", Word), m("Suite", Word), m("Version", Word), m("Date", Line),
    m("NotAutomatic", BoolTF), m("ButAutomaticUpgrades", BoolTF), m("Acquire-By-Hash", BoolTF),
];
pub const APT_SOURCE: &[Spec] = &[
    m("Directory", Path), o("Description", Line), m("Version", Version), m("Package", Word), o("Binary", Words), o("Maintainer", Line), o("Build-Depends", Line), o("Build-Depends-Indep", Rel),
    o("Build-Conflicts", Rel), o("Build-Conflicts-Indep", Rel), o("Standards-Version", Word), o("Homepage", Line), o("Autobuild", BoolTF), o("Testsuite", Word), o("Vcs-Browser", Line), o("Vcs-Git", Line),
    o("Vcs-Bzr", Line), o("Vcs-Hg", Line), o("Vcs-Svn", Line), o("Vcs-Darcs", Line), o("Vcs-Cvs", Line), o("Vcs-Arch", Line), o("Vcs-Mtn", Line), o("Priority", Priority), o("Section", Word), o("Format", Line),
    m("Package-List", Lines),
];
pub const APT_PACKAGE: &[Spec] = &[
    m("Package", Word), m("Version", Version), m("Architecture", Word), o("Maintainer", Line), o("Installed-Size", UInt), o("Depends", Rel), o("Pre-Depends", Rel), o("Recommends", Rel), o("Suggests", Rel),
    o("Enhances", Rel), o("Breaks", Rel), o("Conflicts", Rel), o("Provides", Rel), o("Replaces", Rel), o("Built-Using", Rel), o("Description", Line), o("Homepage", Line), o("Priority", Priority), o("Section", Word),
    o("Essential", BoolTF), o("Tag", Line), o("Size", UInt), o("MD5sum", Word), o("SHA256", Word), o("Description-MD5", Word),
];
pub const REMOVAL: &[Spec] = &[m("Date", Line), o("Suite", Word), m("Ftpmaster", Line), o("Sources", Lines), o("Binaries", Lines), m("Reason", Line), o("Bug", UInt)];
pub const BUILDINFO: &[Spec] = &[
    m("Format", Word), m("Build-Architecture", Word), m("Source", Word), o("Binary", Line), m("Architecture", Line), m("Version", Version), o("Binary-Only-Changes", Multi), o("Checksums-Sha256", Lines),
    o("Checksums-Sha1", Lines), o("Checksums-Md5", Lines), o("Build-Origin", Word), o("Build-Date", Line), o("Build-Tainted-By", Line), o("Build-Path", Path), o("Environment", Env), o("Installed-Build-Depends", Rel),
];
pub const DEP3: &[Spec] = &[
    o("Origin", Origin), o("Forwarded", Forwarded), o("Author", Line), o("Reviewed-by", Line), o("Bug-Debian", Url), o("Last-Update", Date), o("Applied-Upstream", AppliedUpstream), o("Bug", Url), o("Description", Multi),
];
pub const COPYRIGHT_HEADER: &[Spec] = &[m("Format", Line), o("Files-Excluded", Patterns), o("Source", Line), o("Upstream-Contact", Line)];
pub const COPYRIGHT_FILES: &[Spec] = &[m("Files", Patterns), m("License", License), m("Copyright", Lines), o("Comment", Multi)];
pub const COPYRIGHT_LICENSE: &[Spec] = &[m("License", License), o("Comment", Multi)];
pub const APT_SOURCES: &[Spec] = &[
    o("Enabled", YesNo), m("Types", RepoTypes), m("URIs", Urls), m("Suites", Words), m("Components", Words), m("Architectures", Words), o("Languages", Words), o("Targets", Words), o("PDiffs", YesNo),
    o("By-Hash", YesNoForce), o("Allow-Insecure", BoolTF), o("Allow-Weak", BoolTF), o("Allow-Downgrade-To-Insecure", BoolTF), o("Trusted", BoolTF), o("Signed-By", Signature), o("X-Repolib-Name", Line),
    o("Description", Line),
];

/// A generated field value: the deb822 value lines as written (first line may be empty) and the value the
/// type's own codec is expected to print for it (None: compare as a set of lines, order free).
#[derive(Debug, Clone)]
pub struct GenValue {
    pub lines: Vec<String>,
    pub expected: String,
    pub unordered_lines: bool,
}

fn word(t: &mut Tape) -> String {
    t.pick(&["foo", "bar", "libs", "1.0", "x-y", "main", "amd64", "stable", "3.9.8", "a"]).to_string()
}
fn line(t: &mut Tape) -> String {
    t.pick(&["Joe Example <joe@example.com>", "a b c", "Ubuntu 20.04 LTS", "Thu, 23 Apr 2020 17:19:19 UTC", "any", "x: y", "é ü", "https://example.com/x", "a, b <c@d>", "#hash inside", "-dash"]).to_string()
}

/// Lay out a whitespace-separated list: single blanks mostly, sometimes several blanks, a tab, or a fold onto a
/// continuation line (all of them are "whitespace" to a reader of such a list).
fn join_ws(t: &mut Tape, items: &[String]) -> Vec<String> {
    let mut lines = vec![String::new()];
    for (i, it) in items.iter().enumerate() {
        if i > 0 {
            match t.below(12) {
                0 => lines.push(String::new()),
                1 => lines.last_mut().unwrap().push_str("  "),
                2 => lines.last_mut().unwrap().push('\t'),
                _ => lines.last_mut().unwrap().push(' '),
            }
        }
        lines.last_mut().unwrap().push_str(it);
    }
    lines
}

pub fn gen_value(t: &mut Tape, fam: Fam) -> GenValue {
    let single = |s: String| GenValue { lines: vec![s.clone()], expected: s, unordered_lines: false };
    match fam {
        Word => single(word(t)),
        Line => single(line(t)),
        Path => single(t.pick(&["pool/main/c/cvsd", "/build/x-1.0", "a/b c"]).to_string()),
        Version => single(t.pick(&["1.0", "2.1.10", "1:2.0~rc1-1", "0.5+b1", "1.0.24"]).to_string()),
        Priority => single(t.pick(&["required", "important", "standard", "optional", "extra"]).to_string()),
        MultiArch => single(t.pick(&["same", "foreign", "no", "allowed"]).to_string()),
        BoolTF => single(t.pick(&["true", "false"]).to_string()),
        YesNo => single(t.pick(&["yes", "no"]).to_string()),
        YesNoForce => single(t.pick(&["yes", "no", "force"]).to_string()),
        UInt => single(t.pick(&["0", "3524", "12", "4294967295"]).to_string()),
        Date => single(t.pick(&["2024-01-31", "2000-02-29", "1999-12-01", "2024-12-30", "2021-01-01", "2020-12-31", "2000-01-01", "1999-12-31", "2016-01-03"]).to_string()),
        Url => {
            let u = t.pick(&["https://example.com/", "https://bugs.debian.org/123456", "http://x.org/a?b=c", "https://example.com"]).to_string();
            GenValue { lines: vec![u.clone()], expected: url::Url::parse(&u).unwrap().to_string(), unordered_lines: false }
        }
        Urls => {
            let mut v = vec![];
            while t.more(v.len(), 1, 3, 1, 3) {
                v.push(t.pick(&["http://ports.ubuntu.com/", "https://deb.debian.org/debian", "file:///srv/repo"]).to_string());
            }
            let expected = v.iter().map(|u| url::Url::parse(u).unwrap().to_string()).collect::<Vec<_>>().join(" ");
            GenValue { lines: join_ws(t, &v), expected, unordered_lines: false }
        }
        Words => {
            let mut v = vec![];
            while t.more(v.len(), 1, 4, 1, 2) {
                v.push(word(t));
            }
            GenValue { lines: join_ws(t, &v), expected: v.join(" "), unordered_lines: false }
        }
        RepoTypes => {
            let v: &[&str] = *t.pick(&[&["deb"][..], &["deb-src"][..], &["deb", "deb-src"][..]]);
            GenValue { lines: vec![v.join(" ")], expected: v.join("\n"), unordered_lines: true }
        }
        Lines => {
            let mut v = vec![];
            while t.more(v.len(), 1, 3, 1, 2) {
                v.push(t.pick(&["cvsd deb vcs optional", "b7a7d67a02974c52c408fdb5e118406d 890 cvsd_1.0.24.dsc", "*.orig", "2019 John Doe", "src/*", "x_1.0_amd64.deb"]).to_string());
            }
            let mut lines = vec![String::new()];
            lines.extend(v.iter().cloned());
            GenValue { lines, expected: v.join("\n"), unordered_lines: false }
        }
        Patterns => {
            let mut v: Vec<String> = vec![];
            while t.more(v.len(), 1, 4, 1, 2) {
                v.push(t.pick(&["*", "debian/*", "src/*.c", "*.orig", "doc/?", "a\\*b"]).to_string());
            }
            let mut lines = vec![String::new()];
            for (i, p) in v.iter().enumerate() {
                if i > 0 && t.chance(1, 2) {
                    let last = lines.last_mut().unwrap();
                    last.push(' ');
                    last.push_str(p);
                } else if lines.len() == 1 && lines[0].is_empty() && t.chance(1, 2) {
                    lines[0] = p.clone();
                } else {
                    lines.push(p.clone());
                }
            }
            GenValue { lines, expected: v.join("\n"), unordered_lines: false }
        }
        Env => {
            let mut v: Vec<String> = vec![];
            for (i, kv) in ["DEB_BUILD_OPTIONS=\"parallel=4\"", "LANG=\"C.UTF-8\"", "PATH=\"/usr/bin:/bin\"", "X="].iter().enumerate() {
                if i == 0 || t.chance(1, 2) {
                    v.push(kv.to_string());
                }
            }
            let mut lines = vec![String::new()];
            lines.extend(v.iter().cloned());
            GenValue { lines, expected: v.join("\n"), unordered_lines: true }
        }
        Multi => {
            let mut lines = vec![t.pick(&["short description", "Pure-python git implementation", "x"]).to_string()];
            while t.more(lines.len(), 1, 4, 1, 2) {
                lines.push(t.pick(&["long line one", ".", "more text é", "* item: x", "-- dashes"]).to_string());
            }
            GenValue { expected: lines.join("\n"), lines, unordered_lines: false }
        }
        Rel => {
            let ro = RelOpts { max_layout: Layout::L1, max_items: 4, substvars: false, empties: false, ..Default::default() };
            loop {
                let (model, text, _) = rel::gen_field(t, &ro);
                if model.items.is_empty() {
                    return GenValue { lines: vec!["libc6 (>= 2.14)".into()], expected: "libc6 (>= 2.14)".into(), unordered_lines: false };
                }
                let mut lines: Vec<String> = vec![];
                for (i, l) in text.split('\n').enumerate() {
                    let l = l.trim_matches(|c| c == ' ' || c == '\t');
                    if i == 0 || !l.is_empty() {
                        lines.push(l.to_string());
                    }
                }
                return GenValue { lines, expected: model.canonical(), unordered_lines: false };
            }
        }
        Origin => {
            let cat = *t.pick(&["", "upstream, ", "backport, ", "vendor, ", "other, "]);
            let o = *t.pick(&["commit:abc123", "https://example.com/patch", "http://sourceware.org/git/?p=glibc.git;a=commitdiff;h=bdb56bac", "Debian, based on upstream work, see list", "commit:abc, def"]);
            single(format!("{}{}", cat, o))
        }
        Forwarded => single(t.pick(&["no", "not-needed", "https://example.com/pr/1", "yes"]).to_string()),
        AppliedUpstream => single(t.pick(&["commit:abc123", "2.0, https://example.com/c/1", "1.2"]).to_string()),
        License => {
            let name = t.pick(&["GPL-3+", "MIT", "Expat", "BSD-3-clause"]).to_string();
            let mut lines = vec![name];
            while t.more(lines.len() - 1, 0, 3, 1, 3) {
                lines.push(t.pick(&["Permission is hereby granted", ".", "text é"]).to_string());
            }
            GenValue { expected: lines.join("\n"), lines, unordered_lines: false }
        }
        Signature => {
            if t.flag() {
                single("/usr/share/keyrings/docker.gpg".to_string())
            } else {
                let block = vec!["-----BEGIN PGP PUBLIC KEY BLOCK-----".to_string(), ".".to_string(), "mDMEY865UxYJKwYBBAHaRw8BAQdAd7Z0".to_string(), "-----END PGP PUBLIC KEY BLOCK-----".to_string()];
                let mut lines = vec![String::new()];
                lines.extend(block.iter().cloned());
                // Display of a key block starts with the newline after the field name
                GenValue { lines, expected: format!("\n{}", block.join("\n")), unordered_lines: false }
            }
        }
        VcsGit => single(t.pick(&["https://salsa.debian.org/x/y.git", "https://salsa.debian.org/x/y.git -b debian/main", "https://x/y.git [sub]", "https://x/y.git -b b [s/p]"]).to_string()),
    }
}

#[derive(Debug, Clone)]
pub struct GenField {
    pub spec: Spec,
    pub value: GenValue,
}

#[derive(Debug, Clone)]
pub struct GenPara {
    pub table: &'static str,
    pub fields: Vec<GenField>,
    pub para: Para,
}

/// Generate one paragraph from a field table: all mandatory fields, optional fields toggled, in table order or
/// shuffled, with layout variation and comments.
pub fn gen_para(t: &mut Tape, table_name: &'static str, table: &'static [Spec], drop_mandatory: Option<usize>, layout: bool) -> GenPara {
    let mut fields = vec![];
    for (i, s) in table.iter().enumerate() {
        let present = if s.mandatory { drop_mandatory != Some(i) } else { t.chance(2, 5) };
        if present {
            fields.push(GenField { spec: *s, value: gen_value(t, s.fam) });
        }
    }
    if layout && fields.len() > 1 && t.chance(1, 3) {
        // any order (the first field of a paragraph often identifies it, so keep position 0 most of the time)
        let from = if t.chance(1, 4) { 0 } else { 1 };
        for i in (from + 1..fields.len()).rev() {
            let j = from + t.below(i - from + 1);
            fields.swap(i, j);
        }
    }
    if layout {
        // a whitespace-only continuation line inside a list-of-lines value: the strict reader accepts it and shows the
        // value without it; it is not an entry of the list
        for f in fields.iter_mut() {
            if matches!(f.spec.fam, Lines | Env | Patterns) && f.value.lines.len() > 1 && t.chance(1, 6) {
                let at = t.range(1, f.value.lines.len());
                f.value.lines.insert(at, String::new());
            }
        }
    }
    let mut para = Para::default();
    for f in &fields {
        let n = f.value.lines.len();
        let mut df = Field {
            name: f.spec.name.to_string(),
            lines: f.value.lines.clone(),
            colon_ws: if layout && t.chance(1, 6) { "  ".into() } else { " ".into() },
            indents: (1..n).map(|_| if layout && t.chance(1, 4) { "   ".to_string() } else { " ".to_string() }).collect(),
            comments_before: vec![],
        };
        if df.lines[0].is_empty() {
            df.colon_ws = if t.flag() { String::new() } else { " ".into() };
        }
        if layout && t.chance(1, 10) {
            df.comments_before.push(doc::gen_comment(t, true));
        }
        para.fields.push(df);
    }
    GenPara { table: table_name, fields, para }
}

pub fn assemble(t: &mut Tape, paras: &[GenPara], layout: bool) -> Doc {
    let mut d = Doc { final_newline: !(layout && t.chance(1, 6)), ..Default::default() };
    for (i, p) in paras.iter().enumerate() {
        if i > 0 {
            let mut g = vec![GapLine::Empty];
            if layout && t.chance(1, 6) {
                g.push(GapLine::Comment(doc::gen_comment(t, true)));
                g.push(GapLine::Empty);
            }
            if layout && t.chance(1, 6) {
                g.push(GapLine::Empty);
            }
            d.gaps.push(g);
        }
        d.paras.push(p.para.clone());
    }
    if layout && t.chance(1, 8) {
        d.trailing = vec![GapLine::Empty];
    }
    d
}
