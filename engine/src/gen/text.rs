//! Raw-text generators: weighted alphabets, bounded-exhaustive string spaces, text mutations.
use crate::tape::Tape;

/// Number of strings of length <= max_len over an alphabet of size k.
pub fn space_size(k: u64, max_len: u32) -> u64 {
    (0..=max_len).map(|l| k.pow(l)).sum()
}

/// Bijection index -> string of length <= max_len over `alphabet` (shortest first).
pub fn nth_string(alphabet: &[&str], max_len: u32, mut index: u64) -> String {
    let k = alphabet.len() as u64;
    let mut len = 0u32;
    loop {
        let n = k.pow(len);
        if index < n {
            break;
        }
        index -= n;
        len += 1;
        assert!(len <= max_len, "index out of space");
    }
    let mut out: Vec<&str> = Vec::with_capacity(len as usize);
    for _ in 0..len {
        out.push(alphabet[(index % k) as usize]);
        index /= k;
    }
    out.concat()
}

/// Is `s` a member of the enumerated space (alphabet of single chars, length bound in chars)?
pub fn in_space(alphabet: &[&str], max_len: u32, s: &str) -> bool {
    s.chars().count() as u32 <= max_len && s.chars().all(|c| alphabet.iter().any(|a| a.chars().next() == Some(c) && a.chars().count() == 1))
}

pub fn weighted_text(t: &mut Tape, alphabet: &[(u32, &str)], max_chars: usize) -> String {
    let n = t.range(0, max_chars);
    let mut s = String::new();
    for _ in 0..n {
        if t.exhausted() {
            break;
        }
        s.push_str(t.weighted(alphabet));
    }
    s
}

/// Apply 1..=max_edits character- or line-level edits to a text.
pub fn mutate(t: &mut Tape, text: &str, alphabet: &[(u32, &str)], max_edits: usize) -> String {
    let mut chars: Vec<char> = text.chars().collect();
    let edits = t.range(1, max_edits);
    for _ in 0..edits {
        let kind = t.below(9);
        let n = chars.len();
        match kind {
            0 => {
                // insert a char
                let pos = t.below(n + 1);
                let c: Vec<char> = t.weighted(alphabet).chars().collect();
                for (i, ch) in c.into_iter().enumerate() {
                    chars.insert(pos + i, ch);
                }
            }
            1 if n > 0 => {
                let pos = t.below(n);
                chars.remove(pos);
            }
            2 if n > 0 => {
                let pos = t.below(n);
                let c: Vec<char> = t.weighted(alphabet).chars().collect();
                chars[pos] = c[0];
            }
            3 if n > 0 => {
                let pos = t.below(n);
                let c = chars[pos];
                chars.insert(pos, c);
            }
            4 => {
                // duplicate / delete / swap a line
                let s: String = chars.iter().collect();
                let mut lines: Vec<&str> = s.split_inclusive('\n').collect();
                if !lines.is_empty() {
                    let i = t.below(lines.len());
                    match t.below(3) {
                        0 => {
                            let l = lines[i];
                            lines.insert(i, l);
                        }
                        1 => {
                            lines.remove(i);
                        }
                        _ => {
                            let j = t.below(lines.len());
                            lines.swap(i, j);
                        }
                    }
                }
                chars = lines.concat().chars().collect();
            }
            5 => {
                // drop the final newline
                if chars.last() == Some(&'\n') {
                    chars.pop();
                }
            }
            6 => {
                // LF -> CRLF or CR at one or all positions
                let all = t.flag();
                let cr_only = t.flag();
                let positions: Vec<usize> = chars.iter().enumerate().filter(|(_, c)| **c == '\n').map(|(i, _)| i).collect();
                if !positions.is_empty() {
                    let chosen: Vec<usize> = if all { positions } else { vec![positions[t.below(positions.len())]] };
                    for &p in chosen.iter().rev() {
                        if cr_only {
                            chars[p] = '\r';
                        } else {
                            chars.insert(p, '\r');
                        }
                    }
                }
            }
            7 => {
                // truncate
                if n > 0 {
                    let pos = t.below(n);
                    chars.truncate(pos);
                }
            }
            _ => {
                // insert a short line of odd content at a line boundary
                let s: String = chars.iter().collect();
                let mut lines: Vec<String> = s.split_inclusive('\n').map(|x| x.to_string()).collect();
                let i = t.below(lines.len() + 1);
                let mut l = String::new();
                for _ in 0..t.range(0, 4) {
                    l.push_str(t.weighted(alphabet));
                }
                l.push('\n');
                lines.insert(i, l);
                chars = lines.concat().chars().collect();
            }
        }
    }
    chars.into_iter().collect()
}
