//! Harness-side line scanner for *well-formed* LF-terminated deb822 text: an independent way to
//! locate fields, comments and paragraphs (byte spans) in a document printed by the library.
#[derive(Debug, Clone, PartialEq, Eq)]
pub struct SField {
    pub name: String,
    pub value: String,
    pub start: usize,
    pub end: usize,
    /// lines of the value as written (after stripping colon whitespace / indentation), incl. an empty first line
    pub raw_lines: Vec<String>,
    /// indentation strings of the continuation lines
    pub indents: Vec<String>,
}

#[derive(Debug, Clone, Default, PartialEq, Eq)]
pub struct SPara {
    pub fields: Vec<SField>,
    /// (offset, text) of comment lines between the first field and the end of the paragraph
    pub comments: Vec<(usize, String)>,
    pub start: usize,
    pub end: usize,
}

#[derive(Debug, Clone, Default)]
pub struct Scan {
    pub paras: Vec<SPara>,
    /// every comment line in the document: (offset, text, anchor) where anchor is the index
    /// (paragraph, field) of the next field following the comment, or None at the end of the file
    pub comments: Vec<(usize, String)>,
    /// offsets of all line starts (for line-boundary checks) plus text.len()
    pub boundaries: Vec<usize>,
    /// lines that are neither blank, comment, field start nor continuation of a field
    pub errors: Vec<String>,
}

pub fn scan(text: &str) -> Scan {
    let mut s = Scan::default();
    let mut off = 0usize;
    let mut cur: Option<SPara> = None;
    // comments seen since the last field/blank, pending attachment
    for line in text.split_inclusive('\n') {
        s.boundaries.push(off);
        let body = line.strip_suffix('\n').unwrap_or(line);
        let end = off + line.len();
        if body.is_empty() {
            if let Some(p) = cur.take() {
                s.paras.push(p);
            }
        } else if body.starts_with('#') {
            s.comments.push((off, body.to_string()));
            if let Some(p) = cur.as_mut() {
                p.comments.push((off, body.to_string()));
                p.end = end;
            }
        } else if body.starts_with(' ') || body.starts_with('\t') {
            let stripped = body.trim_start_matches(|c| c == ' ' || c == '\t');
            let indent = &body[..body.len() - stripped.len()];
            match cur.as_mut().and_then(|p| {
                // a continuation directly follows its field's previous line
                let pe = p.end;
                p.fields.last_mut().filter(|f| f.end == off && pe == off)
            }) {
                // a whitespace-only continuation line is accepted by the strict reader; it carries no value text
                Some(f) => {
                    f.raw_lines.push(stripped.to_string());
                    f.indents.push(indent.to_string());
                    f.end = end;
                    cur.as_mut().unwrap().end = end;
                }
                _ => s.errors.push(format!("continuation of nothing at offset {}: {:?}", off, body)),
            }
        } else {
            match body.find(':') {
                None => s.errors.push(format!("line without colon at offset {}: {:?}", off, body)),
                Some(c) => {
                    let name = &body[..c];
                    if name.is_empty() || name.starts_with('-') || name.contains(|ch: char| !ch.is_ascii_graphic()) {
                        s.errors.push(format!("bad field name at offset {}: {:?}", off, body));
                    }
                    let rest = body[c + 1..].trim_start_matches(|ch| ch == ' ' || ch == '\t');
                    let p = cur.get_or_insert_with(|| SPara { start: off, ..Default::default() });
                    p.fields.push(SField { name: name.to_string(), value: String::new(), start: off, end, raw_lines: vec![rest.to_string()], indents: vec![] });
                    p.end = end;
                }
            }
        }
        off = end;
    }
    s.boundaries.push(text.len());
    s.boundaries.dedup();
    if let Some(p) = cur.take() {
        s.paras.push(p);
    }
    for p in s.paras.iter_mut() {
        for f in p.fields.iter_mut() {
            f.value = f.raw_lines.iter().enumerate().filter(|(i, l)| !(*i == 0 && l.is_empty())).map(|(_, l)| l.as_str()).collect::<Vec<_>>().join("\n");
        }
    }
    s
}

impl Scan {
    pub fn model(&self) -> Vec<Vec<(String, String)>> {
        self.paras.iter().map(|p| p.fields.iter().map(|f| (f.name.clone(), f.value.clone())).collect()).collect()
    }
}
