pub mod doc;
pub mod rel;
pub mod text;
