pub mod doc;
pub mod kinds;
pub mod rel;
pub mod scan;
pub mod text;
