pub mod doc;
pub mod text;
