pub mod doc;
pub mod rel;
pub mod scan;
pub mod text;
