//! G-doc: deb822 documents rendered from a known model (see DESIGN.md §3).
use crate::tape::Tape;

#[derive(Debug, Clone, PartialEq, Eq)]
pub enum GapLine {
    Empty,
    Comment(String),
}

#[derive(Debug, Clone)]
pub struct Field {
    pub name: String,
    /// value lines; only the first may be empty
    pub lines: Vec<String>,
    /// whitespace after the colon (spaces/tabs, possibly empty)
    pub colon_ws: String,
    /// indentation of each continuation line (lines[1..]), each 1+ of space/tab
    pub indents: Vec<String>,
    /// whole-line comments directly in front of this field
    pub comments_before: Vec<String>,
}

impl Field {
    pub fn simple(name: &str, value: &str) -> Field {
        let lines: Vec<String> = value.split('\n').map(|s| s.to_string()).collect();
        let n = lines.len();
        Field {
            name: name.to_string(),
            lines,
            colon_ws: " ".into(),
            indents: vec![" ".to_string(); n - 1],
            comments_before: vec![],
        }
    }
    /// The value the readers are documented to expose: lines joined by '\n', an empty first line
    /// contributing nothing.
    pub fn value(&self) -> String {
        self.lines
            .iter()
            .enumerate()
            .filter(|(i, l)| !(*i == 0 && l.is_empty()))
            .map(|(_, l)| l.as_str())
            .collect::<Vec<_>>()
            .join("\n")
    }
    pub fn nonblank_lines(&self) -> Vec<String> {
        self.lines.iter().filter(|l| !l.trim().is_empty()).cloned().collect()
    }
}

#[derive(Debug, Clone, Default)]
pub struct Para {
    pub fields: Vec<Field>,
    /// comments after the last field, directly attached (no empty line in between)
    pub trailing_comments: Vec<String>,
}

impl Para {
    pub fn items(&self) -> Vec<(String, String)> {
        self.fields.iter().map(|f| (f.name.clone(), f.value())).collect()
    }
}

#[derive(Debug, Clone, Default)]
pub struct Doc {
    pub leading: Vec<GapLine>,
    pub paras: Vec<Para>,
    /// gaps[i] separates paras[i] and paras[i+1]; contains at least one Empty and starts with Empty
    pub gaps: Vec<Vec<GapLine>>,
    /// lines after the last paragraph; if non-empty and there are paragraphs, starts with Empty
    pub trailing: Vec<GapLine>,
    pub final_newline: bool,
}

#[derive(Debug, Clone, Default)]
pub struct Rendered {
    pub text: String,
    /// per paragraph, per field: byte span [start, end) from the first byte of the name to the end of
    /// the field's last line (including its newline when present)
    pub fields: Vec<Vec<(usize, usize)>>,
    /// per paragraph: span from its first line (comment or field) to the end of its last line
    pub paras: Vec<(usize, usize)>,
    /// every comment line: (start offset, text without newline)
    pub comments: Vec<(usize, String)>,
}

impl Doc {
    pub fn render(&self) -> Rendered {
        let mut r = Rendered::default();
        let mut t = String::new();
        let gap = |t: &mut String, r: &mut Rendered, lines: &[GapLine]| {
            for l in lines {
                match l {
                    GapLine::Empty => t.push('\n'),
                    GapLine::Comment(c) => {
                        r.comments.push((t.len(), c.clone()));
                        t.push_str(c);
                        t.push('\n');
                    }
                }
            }
        };
        gap(&mut t, &mut r, &self.leading);
        for (pi, p) in self.paras.iter().enumerate() {
            if pi > 0 {
                gap(&mut t, &mut r, &self.gaps[pi - 1]);
            }
            let pstart = t.len();
            let mut fspans = vec![];
            for f in &p.fields {
                for c in &f.comments_before {
                    r.comments.push((t.len(), c.clone()));
                    t.push_str(c);
                    t.push('\n');
                }
                let s = t.len();
                t.push_str(&f.name);
                t.push(':');
                t.push_str(&f.colon_ws);
                t.push_str(&f.lines[0]);
                t.push('\n');
                for (i, l) in f.lines.iter().enumerate().skip(1) {
                    t.push_str(&f.indents[i - 1]);
                    t.push_str(l);
                    t.push('\n');
                }
                fspans.push((s, t.len()));
            }
            for c in &p.trailing_comments {
                r.comments.push((t.len(), c.clone()));
                t.push_str(c);
                t.push('\n');
            }
            r.fields.push(fspans);
            r.paras.push((pstart, t.len()));
        }
        gap(&mut t, &mut r, &self.trailing);
        if !self.final_newline && t.ends_with('\n') {
            t.pop();
            let n = t.len();
            for ps in r.fields.iter_mut() {
                for s in ps.iter_mut() {
                    s.1 = s.1.min(n);
                }
            }
            for s in r.paras.iter_mut() {
                s.1 = s.1.min(n);
            }
        }
        r.text = t;
        r
    }

    pub fn model(&self) -> Vec<Vec<(String, String)>> {
        self.paras.iter().map(|p| p.items()).collect()
    }

    pub fn has_comment(&self) -> bool {
        self.leading.iter().chain(self.trailing.iter()).chain(self.gaps.iter().flatten()).any(|g| matches!(g, GapLine::Comment(_)))
            || self.paras.iter().any(|p| !p.trailing_comments.is_empty() || p.fields.iter().any(|f| !f.comments_before.is_empty()))
    }
    pub fn has_multiline(&self) -> bool {
        self.paras.iter().any(|p| p.fields.iter().any(|f| f.lines.len() > 1))
    }
    pub fn has_duplicate_name(&self) -> bool {
        self.paras.iter().any(|p| {
            let mut names: Vec<&str> = p.fields.iter().map(|f| f.name.as_str()).collect();
            let n = names.len();
            names.sort();
            names.dedup();
            names.len() != n
        })
    }
    pub fn has_non_ascii(&self) -> bool {
        self.paras.iter().any(|p| p.fields.iter().any(|f| f.lines.iter().any(|l| !l.is_ascii())))
    }
    pub fn nfields(&self) -> usize {
        self.paras.iter().map(|p| p.fields.len()).sum()
    }
}

// ------------------------------------------------------------------------------------------
// decoders

// the pool holds names that are related to each other: prefixes (Package / Package-List, Depends / Pre-Depends-like suffix
// relations), dpkg's user-defined prefixes (X-, XS-, XB-, XC-, XBS-) in front of another name, and letter-case variants
pub const NAME_POOL: &[&str] = &[
    "A", "B", "Cc", "Source", "Package", "Depends", "X-y", "a#b", "X/y", "!n", "Z9", "Description", "Package-List", "Build-Depends", "Build-Depends-Indep", "Pre-Depends", "XS-Package", "XB-Depends", "XBS-A", "X-A",
    "XC-Package", "package", "DEPENDS", "Vcs-Git", "XS-Vcs-Git",
];

const NAME_FIRST: &str = "ABCXYZabcxyz019!\"$%&'()*+,./;<=>?@[\\]^_`{|}~";
const NAME_REST: &str = "ABCXYZabcxyz019!\"$%&'()*+,./;<=>?@[\\]^_`{|}~-#";

pub fn gen_name(t: &mut Tape, odd: bool) -> String {
    if !odd || !t.chance(1, 5) {
        return t.pick(NAME_POOL).to_string();
    }
    // odd names are 1-12 characters; one in ten of them is long (65-100), beyond any fixed-width table or buffer
    let n = if t.chance(1, 10) { t.range(65, 100) } else { t.range(1, 12) };
    let first: Vec<char> = NAME_FIRST.chars().collect();
    let rest: Vec<char> = NAME_REST.chars().collect();
    let mut s = String::new();
    s.push(*t.pick(&first));
    for _ in 1..n {
        s.push(*t.pick(&rest));
    }
    s
}

/// Characters for value text: simplest first.
pub const TEXT_CHARS: &[(u32, &str)] = &[
    (30, "a"), (8, "b"), (6, "1"), (6, " "), (4, ","), (3, ":"), (3, "#"), (3, "-"), (2, "."), (2, ";"), (2, "="), (2, "("), (2, ")"),
    (2, "["), (2, "]"), (2, "<"), (2, ">"), (1, "{"), (1, "}"), (1, "$"), (1, "@"), (1, "!"), (1, "|"), (1, "~"), (1, "+"), (1, "/"),
    (1, "\\"), (1, "*"), (1, "?"), (1, "\""), (1, "'"), (2, "\t"), (3, "é"), (2, "€"), (2, "𝄞"), (1, "\u{a0}"), (1, "\u{2028}"), (1, "\u{85}"), (1, "\u{feff}"),
];

/// A value line: non-empty unless `allow_empty`; first char not space/tab (and not '#' for
/// continuation lines); trailing spaces allowed on non-empty text (kept verbatim by the readers).
pub fn gen_line(t: &mut Tape, continuation: bool, allow_empty: bool, unicode: bool) -> String {
    if allow_empty && t.chance(1, 8) {
        return String::new();
    }
    // now and then a line that is itself a field name, or looks like a whole field (code that
    // searches for a name must look at the key, not at the text)
    if t.chance(1, 25) {
        let n = t.pick(NAME_POOL);
        return if t.flag() { n.to_string() } else { format!("{}: a", n) };
    }
    // mostly short; now and then a line far beyond 79 columns (wrapping limits, fixed buffers)
    let n = if t.chance(1, 30) { t.range(60, 300) } else { t.range(1, 10) };
    let mut s = String::new();
    for i in 0..n {
        let mut c: &str = t.weighted(TEXT_CHARS);
        if !unicode && !c.is_ascii() {
            c = "u";
        }
        if i == 0 && (c == " " || c == "\t") {
            c = "w";
        }
        if i == 0 && continuation && c == "#" {
            c = "h";
        }
        s.push_str(c);
    }
    s
}

fn gen_ws(t: &mut Tape, min: usize, max: usize) -> String {
    // simplest: a single space (or nothing if min == 0 and the tape says so)
    let n = if min == 0 {
        // 0 => " " (most common), then "", then longer
        match t.below(6) {
            0 | 1 | 2 => 1,
            3 => 0,
            4 => 2,
            _ => t.range(1, max),
        }
    } else {
        match t.below(4) {
            0 | 1 => 1,
            2 => 2,
            _ => t.range(min, max),
        }
    };
    let mut s = String::new();
    for _ in 0..n {
        s.push(if t.chance(1, 6) { '\t' } else { ' ' });
    }
    s
}

pub fn gen_comment(t: &mut Tape, unicode: bool) -> String {
    let mut s = String::from("#");
    let n = t.below(8);
    for _ in 0..n {
        let mut c: &str = t.weighted(TEXT_CHARS);
        if !unicode && !c.is_ascii() {
            c = "u";
        }
        s.push_str(c);
    }
    s
}

#[derive(Clone, Copy)]
pub struct DocOpts {
    pub max_paras: usize,
    pub min_paras: usize,
    pub max_fields: usize,
    pub max_lines: usize,
    pub comments: bool,
    pub unicode: bool,
    pub odd_names: bool,
    pub layout: bool,
}

impl Default for DocOpts {
    fn default() -> Self {
        DocOpts { max_paras: 4, min_paras: 0, max_fields: 6, max_lines: 4, comments: true, unicode: true, odd_names: true, layout: true }
    }
}

pub fn gen_field(t: &mut Tape, o: &DocOpts) -> Field {
    let name = gen_name(t, o.odd_names);
    let colon_ws = if o.layout { gen_ws(t, 0, 4) } else { " ".to_string() };
    let mut comments_before = vec![];
    if o.comments {
        while t.more(comments_before.len(), 0, 2, 1, 7) {
            comments_before.push(gen_comment(t, o.unicode));
        }
    }
    let mut lines = vec![gen_line(t, false, true, o.unicode)];
    let mut indents = vec![];
    while t.more(lines.len(), 1, o.max_lines, 1, 3) {
        let wide = o.layout && t.chance(1, 400);
        indents.push(if wide && !crate::LIGHT_MODE.load(std::sync::atomic::Ordering::Relaxed) {
            // a very wide indentation, around the 8- and 16-bit boundaries
            let n = *t.pick(&[255usize, 256, 257, 65535, 65536, 65537]);
            if t.flag() { " ".repeat(n) } else { " \t".repeat(n / 2) + &" ".repeat(n % 2) }
        } else if o.layout {
            gen_ws(t, 1, 6)
        } else {
            " ".to_string()
        });
        lines.push(gen_line(t, true, false, o.unicode));
    }
    Field { name, lines, colon_ws, indents, comments_before }
}

fn gen_gap(t: &mut Tape, o: &DocOpts, need_empty_first: bool) -> Vec<GapLine> {
    let mut v = vec![];
    if need_empty_first {
        v.push(GapLine::Empty);
    }
    if !o.layout && !o.comments {
        return v;
    }
    let base = v.len();
    while t.more(v.len() - base, 0, 4, 1, 5) {
        if o.comments && (!o.layout || t.chance(1, 2)) {
            v.push(GapLine::Comment(gen_comment(t, o.unicode)));
        } else {
            v.push(GapLine::Empty);
        }
    }
    v
}

pub fn gen_doc(t: &mut Tape, o: &DocOpts) -> Doc {
    let mut d = Doc { final_newline: true, ..Default::default() };
    // document-level decisions first, so that they keep their tape position when content shrinks
    d.final_newline = !(o.layout && t.chance(1, 5));
    let trailing_gap = t.chance(1, 3);
    d.leading = gen_gap(t, o, false);
    while t.more(d.paras.len(), o.min_paras, o.max_paras, 3, 5) {
        if !d.paras.is_empty() {
            d.gaps.push(gen_gap(t, o, true));
        }
        let mut p = Para::default();
        while t.more(p.fields.len(), 1, o.max_fields, 3, 5) {
            p.fields.push(gen_field(t, o));
        }
        if o.comments {
            while t.more(p.trailing_comments.len(), 0, 2, 1, 9) {
                p.trailing_comments.push(gen_comment(t, o.unicode));
            }
        }
        d.paras.push(p);
    }
    if !d.paras.is_empty() && trailing_gap {
        d.trailing = gen_gap(t, o, true);
    }
    d
}
