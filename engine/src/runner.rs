//! Orchestration: regression replays, bounded-exhaustive enumeration, random lanes (proptest
//! generation + shrinking over choice tapes), evidence, exit codes.
use crate::evidence::Evidence;
use crate::worker::{BatchAgg, Resp, WorkerHandle};
use crate::{known, CaseReport, Tier};
use proptest::test_runner::{Config, RngSeed, TestCaseError, TestError, TestRunner};
use serde_json::json;
use std::cell::RefCell;
use std::collections::{BTreeMap, HashSet};
use std::sync::atomic::{AtomicU64, Ordering};
use std::sync::{Arc, Mutex};

pub const LANES: usize = 16;

#[derive(Debug, Clone)]
pub enum ReplayKind {
    Tape { tape: Vec<u8>, avoid: bool },
    Enum { tier: Tier, space: usize, index: u64 },
    Text { text: String },
}

#[derive(Debug, Clone)]
pub struct Violation {
    pub front_end: String,
    pub kind: ReplayKind,
    pub assertion: String,
    pub message: String,
    pub rendering: String,
    /// path of an existing replay file (regression tier) if the violation came from one
    pub existing_path: Option<String>,
}

fn hex(b: &[u8]) -> String {
    b.iter().map(|x| format!("{:02x}", x)).collect()
}
fn unhex(s: &str) -> Vec<u8> {
    (0..s.len() / 2)
        .filter_map(|i| u8::from_str_radix(&s[2 * i..2 * i + 2], 16).ok())
        .collect()
}

pub fn write_replay(id: &str, v: &Violation) -> String {
    if let Some(p) = &v.existing_path {
        return p.clone();
    }
    let dir = format!("{}/replays/{}", known::root(), id);
    let _ = std::fs::create_dir_all(&dir);
    let (kind, payload) = match &v.kind {
        ReplayKind::Tape { tape, avoid } => ("tape", json!({"tape_hex": hex(tape), "avoid_known": avoid})),
        ReplayKind::Enum { tier, space, index } => ("enum", json!({"tier": tier.name(), "space": space, "index": index})),
        ReplayKind::Text { text } => ("text", json!({"text": text})),
    };
    let h = crate::hash64(&(kind, payload.to_string()));
    let path = format!("{}/{:016x}.json", dir, h);
    let doc = json!({
        "property": id,
        "front_end": v.front_end,
        "kind": kind,
        "case": payload,
        "assertion": v.assertion,
        "message": v.message,
        "rendering": v.rendering,
    });
    let _ = std::fs::write(&path, serde_json::to_string_pretty(&doc).unwrap() + "\n");
    path
}

pub fn load_replay(path: &str) -> Result<ReplayKind, String> {
    let text = std::fs::read_to_string(path).map_err(|e| format!("{}: {}", path, e))?;
    let v: serde_json::Value = serde_json::from_str(&text).map_err(|e| format!("{}: {}", path, e))?;
    let c = &v["case"];
    match v["kind"].as_str() {
        Some("tape") => Ok(ReplayKind::Tape {
            tape: unhex(c["tape_hex"].as_str().unwrap_or("")),
            avoid: c["avoid_known"].as_bool().unwrap_or(true),
        }),
        Some("enum") => Ok(ReplayKind::Enum {
            tier: if c["tier"].as_str() == Some("thorough") { Tier::Thorough } else { Tier::Quick },
            space: c["space"].as_u64().unwrap_or(0) as usize,
            index: c["index"].as_u64().unwrap_or(0),
        }),
        Some("text") => Ok(ReplayKind::Text {
            text: c["text"].as_str().unwrap_or("").to_string(),
        }),
        k => Err(format!("{}: unknown replay kind {:?}", path, k)),
    }
}

/// Outcome of executing one case through a worker, from the parent's point of view.
pub enum Exec {
    Pass(CaseReport),
    Known(String, CaseReport),
    Fail { assertion: String, message: String, rendering: String },
    NotApplicable,
    Infra(String),
}

fn interpret(resp: Result<Resp, String>) -> Exec {
    match resp {
        Err(e) => Exec::Infra(e),
        Ok(Resp::NotApplicable) => Exec::NotApplicable,
        Ok(Resp::Case(rep)) => match &rep.failure {
            None => Exec::Pass(rep),
            Some(f) => {
                if f.assertion.starts_with("infra/") {
                    return Exec::Infra(format!("{}: {}", f.assertion, f.message));
                }
                if f.assertion == "harness-panic" {
                    return Exec::Infra(format!("harness panic: {} [{}]", f.message, rep.rendering.clone().unwrap_or_default()));
                }
                if let Some(fid) = rep.finding.as_ref().filter(|x| known::is_listed(x)) {
                    return Exec::Known(fid.clone(), rep.clone());
                }
                Exec::Fail {
                    assertion: f.assertion.clone(),
                    message: f.message.clone(),
                    rendering: rep.rendering.clone().unwrap_or_default(),
                }
            }
        },
        Ok(Resp::Watchdog(what, _)) => Exec::Fail {
            assertion: if what == 3 { "resource-exhaustion".into() } else { "diverges".into() },
            message: if what == 3 {
                "the case allocated more than 2 GiB (killed by the worker watchdog)".into()
            } else {
                "the case exceeded its CPU budget (killed by the worker watchdog)".into()
            },
            rendering: String::new(),
        },
        Ok(Resp::Died(how)) => Exec::Fail {
            assertion: "crash".into(),
            message: format!("worker died while executing the case: {}", how),
            rendering: String::new(),
        },
        Ok(Resp::Batch(..)) | Ok(Resp::Rendered(_)) => Exec::Infra("unexpected response".into()),
    }
}

/// Watchdog kills and worker deaths that a second execution of the same case (in a fresh worker) did not show again:
/// the machine, not the code, was the cause (a frozen or overloaded host charges the running process with CPU time).
pub static UNREPRODUCED_WATCHDOGS: AtomicU64 = AtomicU64::new(0);

fn environment_sensitive(assertion: &str) -> bool {
    assertion == "diverges" || assertion == "resource-exhaustion" || assertion == "crash"
}

/// Executes the case; a watchdog kill or a worker death counts only if it happens again on a second execution.
fn exec_twice(w: &mut WorkerHandle, kind: &ReplayKind, render: bool, budget_ms: u32) -> Exec {
    let mut e = exec_kind_(w, kind, render, budget_ms);
    // second and third execution, after a pause that lets a host hiccup pass: the kill has to happen every time
    for pause_ms in RETRY_PAUSES_MS {
        if !matches!(&e, Exec::Fail { assertion, .. } if environment_sensitive(assertion)) {
            break;
        }
        std::thread::sleep(std::time::Duration::from_millis(pause_ms));
        let again = exec_kind_(w, kind, render, budget_ms);
        if !matches!(&again, Exec::Fail { assertion, .. } if environment_sensitive(assertion)) {
            UNREPRODUCED_WATCHDOGS.fetch_add(1, Ordering::SeqCst);
        }
        e = again;
    }
    e
}

const RETRY_PAUSES_MS: [u64; 2] = [1000, 3000];

pub fn exec_kind(w: &mut WorkerHandle, kind: &ReplayKind, render: bool, budget_ms: u32) -> Exec {
    match exec_twice(w, kind, render, budget_ms) {
        Exec::Fail { assertion, message, rendering } if rendering.is_empty() => {
            let rendering = match kind {
                ReplayKind::Tape { tape, avoid } => w.render_tape(tape, *avoid),
                ReplayKind::Enum { space, index, .. } => w.render_enum(*space, *index),
                ReplayKind::Text { text } => format!("{:?}", text),
            };
            Exec::Fail { assertion, message, rendering }
        }
        e => e,
    }
}

fn exec_kind_(w: &mut WorkerHandle, kind: &ReplayKind, render: bool, budget_ms: u32) -> Exec {
    match kind {
        ReplayKind::Tape { tape, avoid } => interpret(w.run_tape(tape, *avoid, render, budget_ms)),
        ReplayKind::Text { text } => interpret(w.run_text(text, render, budget_ms)),
        ReplayKind::Enum { space, index, .. } => match w.run_enum(*space, *index, *index + 1, render, budget_ms) {
            Ok(Resp::Batch(agg, fail)) => match fail {
                Some((_, rep)) => interpret(Ok(Resp::Case(rep))),
                None => {
                    if let Some((k, _)) = agg.known_hits.iter().next() {
                        Exec::Known(
                            k.clone(),
                            CaseReport { failure: None, finding: Some(k.clone()), labels: vec![], nontrivial: false, dup_of_enum: false, hash: 0, excluded_known: 0, inner_evaluations: 0, rendering: agg.samples.first().cloned() },
                        )
                    } else {
                        Exec::Pass(CaseReport {
                            failure: None,
                            finding: None,
                            labels: agg.labels.keys().cloned().collect(),
                            nontrivial: agg.nontrivial > 0,
                            dup_of_enum: false,
                            hash: 0,
                            excluded_known: 0,
                            inner_evaluations: 0,
                            rendering: agg.samples.first().cloned(),
                        })
                    }
                }
            },
            other => interpret(other),
        },
    }
}

// ------------------------------------------------------------------------------------------
// random lanes

#[derive(Default)]
pub struct LaneResult {
    pub evaluated: u64,
    pub shrink_evals: u64,
    pub nontrivial: HashSet<u64>,
    pub labels: BTreeMap<String, u64>,
    pub known_hits: BTreeMap<String, u64>,
    pub excluded_known: u64,
    pub inner_evaluations: u64,
    pub samples: Vec<(usize, String)>,
    pub violation: Option<Violation>,
    pub error: Option<String>,
}

fn splitmix(mut x: u64) -> u64 {
    x = x.wrapping_add(0x9E3779B97F4A7C15);
    let mut z = x;
    z = (z ^ (z >> 30)).wrapping_mul(0xBF58476D1CE4E5B9);
    z = (z ^ (z >> 27)).wrapping_mul(0x94D049BB133111EB);
    z ^ (z >> 31)
}

pub fn lane_seed(seed: u64, id: &str, lane: usize, stage: u64) -> u64 {
    splitmix(seed ^ splitmix(crate::hash64(&id) ^ splitmix(lane as u64 * 1000 + stage)))
}

fn random_lane(id: &str, tier: Tier, lane: usize, seed: u64, cases: u32, tape_max: usize, avoid: bool, cpu_ms: u32) -> LaneResult {
    let res = RefCell::new(LaneResult::default());
    let worker = RefCell::new(WorkerHandle::new(id, tier));
    let failed_once = RefCell::new(false);
    let slow_failures = RefCell::new(0u32);
    let config = Config {
        cases,
        failure_persistence: None,
        rng_seed: RngSeed::Fixed(lane_seed(seed, id, lane, 0)),
        max_shrink_iters: 300,
        max_shrink_time: 0,
        max_local_rejects: 65536,
        max_global_rejects: 65536,
        verbose: 0,
        ..Config::default()
    };
    let mut runner = TestRunner::new(config);
    let strat = proptest::collection::vec(proptest::prelude::any::<u8>(), 0..=tape_max);
    let out = runner.run(&strat, |tape| {
        let shrinking = *failed_once.borrow();
        if shrinking && *slow_failures.borrow() > 40 {
            // every evaluation of a diverging case costs the whole (reduced) CPU budget: stop shrinking it here, ddmin has its own cap
            return Ok(());
        }
        let mut r = res.borrow_mut();
        let n = r.evaluated;
        let render = !shrinking && (n < 48 || n % 97 == 0);
        let budget = if shrinking { cpu_ms.min(2000) } else { cpu_ms };
        let mut e = interpret(worker.borrow_mut().run_tape(&tape, avoid, render, budget));
        if !shrinking && matches!(&e, Exec::Fail { assertion, .. } if environment_sensitive(assertion)) {
            // a watchdog kill or worker death counts only if it happens again
            for pause_ms in RETRY_PAUSES_MS {
                std::thread::sleep(std::time::Duration::from_millis(pause_ms));
                let again = interpret(worker.borrow_mut().run_tape(&tape, avoid, render, budget));
                let killed = matches!(&again, Exec::Fail { assertion, .. } if environment_sensitive(assertion));
                e = again;
                if !killed {
                    UNREPRODUCED_WATCHDOGS.fetch_add(1, Ordering::SeqCst);
                    break;
                }
            }
        }
        if shrinking {
            r.shrink_evals += 1;
        } else {
            r.evaluated += 1;
        }
        match e {
            Exec::Pass(rep) | Exec::Known(_, rep) if shrinking => {
                let _ = rep;
                Ok(())
            }
            Exec::Pass(rep) => {
                account(&mut r, &rep, tape.len());
                Ok(())
            }
            Exec::Known(fid, rep) => {
                account(&mut r, &rep, tape.len());
                *r.known_hits.entry(fid).or_default() += 1;
                Ok(())
            }
            Exec::NotApplicable => Ok(()),
            Exec::Fail { assertion, .. } => {
                *failed_once.borrow_mut() = true;
                if assertion == "diverges" || assertion == "resource-exhaustion" {
                    *slow_failures.borrow_mut() += 1;
                }
                Err(TestCaseError::fail(assertion))
            }
            Exec::Infra(e) => {
                if r.error.is_none() {
                    r.error = Some(e);
                }
                // stop the lane: report as failure to proptest, the error flag takes precedence
                *failed_once.borrow_mut() = true;
                Err(TestCaseError::fail("infrastructure"))
            }
        }
    });
    let mut r = res.into_inner();
    if r.error.is_some() {
        return r;
    }
    if let Err(TestError::Fail(_, tape)) = out {
        let mut w = worker.borrow_mut();
        let tape = ddmin(&mut w, tape, avoid, cpu_ms.min(2000), &mut r.shrink_evals);
        match exec_kind(&mut w, &ReplayKind::Tape { tape: tape.clone(), avoid }, true, cpu_ms) {
            Exec::Fail { assertion, message, rendering } => {
                let rendering = if rendering.is_empty() { render_only(&mut w, &tape, avoid) } else { rendering };
                r.violation = Some(Violation {
                    front_end: format!("random lane {}", lane),
                    kind: ReplayKind::Tape { tape, avoid },
                    assertion,
                    message,
                    rendering,
                    existing_path: None,
                });
            }
            Exec::Infra(e) => r.error = Some(e),
            _ => r.error = Some("a shrunk failing tape passed on re-execution (non-deterministic check?)".into()),
        }
    } else if let Err(TestError::Abort(reason)) = out {
        r.error = Some(format!("proptest aborted: {}", reason));
    }
    r
}

/// Ask the property to render a tape without running its oracle? Not available for hanging cases;
/// the decoder is total and cheap, so we render through a "decode-only" request encoded as budget 0.
fn render_only(w: &mut WorkerHandle, tape: &[u8], avoid: bool) -> String {
    w.render_tape(tape, avoid)
}

fn account(r: &mut LaneResult, rep: &CaseReport, tape_len: usize) {
    for l in &rep.labels {
        *r.labels.entry(l.clone()).or_default() += 1;
    }
    r.excluded_known += rep.excluded_known as u64;
    r.inner_evaluations += rep.inner_evaluations as u64;
    if rep.nontrivial && !rep.dup_of_enum {
        r.nontrivial.insert(rep.hash);
    }
    if let Some(s) = &rep.rendering {
        if rep.nontrivial {
            r.samples.push((tape_len, s.clone()));
            if r.samples.len() > 12 {
                // keep the largest and a few early ones
                r.samples.sort_by_key(|x| std::cmp::Reverse(x.0));
                r.samples.truncate(6);
            }
        }
    }
}

/// Delta-debugging pass over the tape after proptest's own shrinking: shortest failing prefix,
/// span deletion, per-byte bisection towards zero. Bounded by evaluations and wall-clock time
/// (the bound only limits how small the reproduction gets, never the verdict).
fn ddmin(w: &mut WorkerHandle, mut tape: Vec<u8>, avoid: bool, budget_ms: u32, evals: &mut u64) -> Vec<u8> {
    let t0 = std::time::Instant::now();
    let mut budget: i64 = 60_000;
    let mut fails = |t: &[u8], w: &mut WorkerHandle, budget: &mut i64| -> bool {
        *evals += 1;
        *budget -= 1;
        if t0.elapsed().as_secs() > 90 {
            *budget = 0;
        }
        matches!(interpret(w.run_tape(t, avoid, false, budget_ms)), Exec::Fail { .. })
    };
    let mut changed = true;
    while changed && budget > 0 {
        changed = false;
        // shortest failing prefix (an exhausted tape yields zeros)
        let (mut lo, mut hi) = (0usize, tape.len());
        while lo < hi && budget > 0 {
            let mid = (lo + hi) / 2;
            if fails(&tape[..mid], w, &mut budget) {
                hi = mid;
            } else {
                lo = mid + 1;
            }
        }
        if hi < tape.len() {
            tape.truncate(hi);
            changed = true;
        }
        // span deletion
        let mut span = (tape.len() / 2).max(1);
        loop {
            let mut i = 0;
            while i + span <= tape.len() && budget > 0 {
                let mut cand = tape.clone();
                cand.drain(i..i + span);
                if fails(&cand, w, &mut budget) {
                    tape = cand;
                    changed = true;
                } else {
                    i += span;
                }
            }
            if span == 1 || budget <= 0 {
                break;
            }
            span /= 2;
        }
        // every (offset, size) with size <= 24: removes one generated item (its "more" flag and its bytes)
        for span in (1..=24usize).rev() {
            let mut i = 0;
            while i + span <= tape.len() && budget > 0 {
                let mut cand = tape.clone();
                cand.drain(i..i + span);
                if fails(&cand, w, &mut budget) {
                    tape = cand;
                    changed = true;
                } else {
                    i += 1;
                }
            }
        }
        // per-byte bisection towards zero
        for i in 0..tape.len() {
            if budget <= 0 {
                break;
            }
            let v = tape[i];
            if v == 0 {
                continue;
            }
            let mut cand = tape.clone();
            cand[i] = 0;
            if fails(&cand, w, &mut budget) {
                tape = cand;
                changed = true;
                continue;
            }
            let (mut lo, mut hi) = (0u8, v); // lo passes, hi fails
            while hi - lo > 1 && budget > 0 {
                let mid = lo + (hi - lo) / 2;
                cand[i] = mid;
                if fails(&cand, w, &mut budget) {
                    hi = mid;
                } else {
                    lo = mid;
                }
            }
            if hi < v {
                tape[i] = hi;
                changed = true;
            }
        }
        while tape.last() == Some(&0) {
            tape.pop();
        }
    }
    tape
}

// ------------------------------------------------------------------------------------------
// enumeration

pub struct EnumResult {
    pub agg: BatchAgg,
    pub violation: Option<Violation>,
    pub error: Option<String>,
    pub completed: bool,
}

const MAX_BATCH: u64 = 2048;

fn run_space(id: &str, tier: Tier, space: usize, name: &str, size: u64, cpu_ms: u32) -> EnumResult {
    // small spaces of expensive cases must still spread over all lanes
    #[allow(non_snake_case)]
    let BATCH: u64 = (size / (LANES as u64 * 8)).clamp(1, MAX_BATCH);
    let nbatches = size.div_ceil(BATCH);
    let next = Arc::new(AtomicU64::new(0));
    let stop_at = Arc::new(AtomicU64::new(u64::MAX));
    let shared: Arc<Mutex<(BatchAgg, Vec<(u64, Violation)>, Option<String>)>> = Arc::new(Mutex::new((BatchAgg::default(), vec![], None)));
    let mut handles = vec![];
    for _lane in 0..LANES.min(nbatches.max(1) as usize) {
        let next = next.clone();
        let stop_at = stop_at.clone();
        let shared = shared.clone();
        let id = id.to_string();
        let name = name.to_string();
        handles.push(std::thread::spawn(move || {
            let mut w = WorkerHandle::new(&id, tier);
            loop {
                let b = next.fetch_add(1, Ordering::SeqCst);
                if b >= nbatches || b > stop_at.load(Ordering::SeqCst) {
                    break;
                }
                let start = b * BATCH;
                let end = (start + BATCH).min(size);
                let render = b == 0 || b == nbatches / 2 || b + 1 == nbatches || b % 199 == 0;
                let mut resp = w.run_enum(space, start, end, render, cpu_ms);
                // a watchdog kill counts only if the single case shows it again; otherwise the batch is run again
                for _ in 0..3 {
                    let Ok(Resp::Watchdog(_, idx)) = &resp else { break };
                    let idx = *idx;
                    let mut passed = false;
                    for pause_ms in RETRY_PAUSES_MS {
                        std::thread::sleep(std::time::Duration::from_millis(pause_ms));
                        if let Ok(Resp::Batch(_, None)) = w.run_enum(space, idx, idx + 1, false, cpu_ms) {
                            passed = true;
                            break;
                        }
                    }
                    if !passed {
                        break;
                    }
                    UNREPRODUCED_WATCHDOGS.fetch_add(1, Ordering::SeqCst);
                    resp = w.run_enum(space, start, end, render, cpu_ms);
                }
                let mut viol: Option<(u64, String, String, String)> = None;
                match resp {
                    Err(e) => {
                        shared.lock().unwrap().2.get_or_insert(e);
                        stop_at.fetch_min(0, Ordering::SeqCst);
                        break;
                    }
                    Ok(Resp::Batch(agg, fail)) => {
                        let mut g = shared.lock().unwrap();
                        g.0.merge(&agg);
                        if g.0.samples.len() < 8 {
                            g.0.samples.extend(agg.samples.iter().cloned());
                        }
                        drop(g);
                        if let Some((idx, rep)) = fail {
                            let f = rep.failure.clone().unwrap();
                            if f.assertion == "harness-panic" || f.assertion.starts_with("infra/") {
                                shared.lock().unwrap().2.get_or_insert(format!("harness panic: {} [{}]", f.message, rep.rendering.clone().unwrap_or_default()));
                                stop_at.fetch_min(0, Ordering::SeqCst);
                                break;
                            }
                            viol = Some((idx, f.assertion, f.message, rep.rendering.unwrap_or_default()));
                        }
                    }
                    Ok(Resp::Watchdog(what, idx)) => {
                        viol = Some((
                            idx,
                            if what == 3 { "resource-exhaustion".into() } else { "diverges".into() },
                            if what == 3 { "the case allocated more than 2 GiB".into() } else { "the case exceeded its CPU budget".into() },
                            String::new(),
                        ));
                    }
                    Ok(Resp::Died(how)) => {
                        // bisect the batch to the single index
                        let (mut lo, mut hi) = (start, end);
                        let mut reproduced = true;
                        while hi - lo > 1 {
                            let mid = (lo + hi) / 2;
                            match w.run_enum(space, lo, mid, false, cpu_ms) {
                                Ok(Resp::Died(_)) | Ok(Resp::Watchdog(..)) => hi = mid,
                                Ok(Resp::Batch(_, Some(_))) => hi = mid,
                                Ok(Resp::Batch(_, None)) => lo = mid,
                                _ => {
                                    reproduced = false;
                                    break;
                                }
                            }
                        }
                        if reproduced {
                            match w.run_enum(space, lo, lo + 1, false, cpu_ms) {
                                Ok(Resp::Died(h2)) => viol = Some((lo, "crash".into(), format!("worker died while executing the case: {}", h2), String::new())),
                                Ok(Resp::Watchdog(what, _)) => viol = Some((lo, if what == 3 { "resource-exhaustion".into() } else { "diverges".into() }, "watchdog".into(), String::new())),
                                _ => reproduced = false,
                            }
                        }
                        if !reproduced {
                            shared.lock().unwrap().2.get_or_insert(format!("worker died ({}) in batch {}..{} of space {} but the death did not reproduce", how, start, end, name));
                            stop_at.fetch_min(0, Ordering::SeqCst);
                            break;
                        }
                    }
                    Ok(_) => {
                        shared.lock().unwrap().2.get_or_insert("protocol error".into());
                        break;
                    }
                }
                if let Some((idx, assertion, message, mut rendering)) = viol {
                    stop_at.fetch_min(b, Ordering::SeqCst);
                    if rendering.is_empty() {
                        rendering = w.render_enum(space, idx);
                        shared.lock().unwrap().0.evaluated += idx - start + 1;
                    }
                    shared.lock().unwrap().1.push((
                        idx,
                        Violation {
                            front_end: format!("enumeration {}", name),
                            kind: ReplayKind::Enum { tier, space, index: idx },
                            assertion,
                            message,
                            rendering,
                            existing_path: None,
                        },
                    ));
                }
            }
        }));
    }
    for h in handles {
        let _ = h.join();
    }
    let g = Arc::try_unwrap(shared).ok().unwrap().into_inner().unwrap();
    let (agg, mut viols, error) = g;
    viols.sort_by_key(|v| v.0);
    let violation = viols.into_iter().next().map(|v| v.1);
    let completed = violation.is_none() && error.is_none() && agg.evaluated == size;
    EnumResult { agg, violation, error, completed }
}

// ------------------------------------------------------------------------------------------
// libFuzzer campaign

fn fuzz_stage(id: &str, tier: Tier, seed: u64, bin: &str, tape_max: usize, cpu_ms: u32) -> Result<(serde_json::Value, Option<Violation>), String> {
    let text_mode = crate::fuzz::TEXT_PROPS.contains(&id);
    let procs: usize = std::env::var("VP_FUZZ_PROCS").ok().and_then(|s| s.parse().ok()).unwrap_or(8);
    let runs: u64 = std::env::var("VP_FUZZ_RUNS").ok().and_then(|s| s.parse().ok()).unwrap_or(150_000);
    let work = format!("{}/engine/target/fuzz-work/{}", known::root(), id);
    let _ = std::fs::remove_dir_all(&work);
    let mut children = vec![];
    for k in 0..procs {
        let corpus = format!("{}/corpus-{}", work, k);
        let arts = format!("{}/artifacts-{}/", work, k);
        std::fs::create_dir_all(&corpus).map_err(|e| e.to_string())?;
        std::fs::create_dir_all(&arts).map_err(|e| e.to_string())?;
        // seeds: committed corpus files and the tapes / texts of saved replays
        let mut n = 0;
        for dir in [format!("{}/corpus/{}", known::root(), id), format!("{}/replays/{}", known::root(), id)] {
            if let Ok(rd) = std::fs::read_dir(&dir) {
                let mut files: Vec<_> = rd.filter_map(|e| e.ok()).map(|e| e.path()).collect();
                files.sort();
                for f in files {
                    let bytes: Option<Vec<u8>> = if f.extension().map(|x| x == "json").unwrap_or(false) {
                        match load_replay(&f.to_string_lossy()) {
                            Ok(ReplayKind::Tape { tape, .. }) if !text_mode => Some(tape),
                            Ok(ReplayKind::Text { text }) if text_mode => Some(text.into_bytes()),
                            _ => None,
                        }
                    } else {
                        std::fs::read(&f).ok()
                    };
                    if let Some(b) = bytes {
                        let _ = std::fs::write(format!("{}/seed-{:04}", corpus, n), b);
                        n += 1;
                    }
                }
            }
        }
        let log = std::fs::File::create(format!("{}/log-{}.txt", work, k)).map_err(|e| e.to_string())?;
        let child = std::process::Command::new(bin)
            .env("VP_PROP", id)
            .env("VP_ROOT", known::root())
            .arg(format!("-runs={}", runs))
            // safety net only: the campaign is sized by -runs; a process that is still running after 10 minutes is ended
            // (its findings so far are kept), so that the whole check stays far from its wall-clock limit
            .arg("-max_total_time=600")
            .arg(format!("-seed={}", (seed as u32 as u64).wrapping_mul(31).wrapping_add(k as u64 + 1) & 0x7fff_ffff))
            .arg(format!("-max_len={}", if text_mode { 2048 } else { tape_max }))
            .arg("-len_control=0")
            .arg("-timeout=25")
            .arg("-rss_limit_mb=3000")
            .arg("-print_final_stats=1")
            .arg(format!("-artifact_prefix={}", arts))
            .arg(&corpus)
            .stdin(std::process::Stdio::null())
            .stdout(std::process::Stdio::null())
            .stderr(log)
            .spawn()
            .map_err(|e| format!("cannot start the fuzz target {}: {}", bin, e))?;
        children.push(child);
    }
    let mut total_runs = 0u64;
    let mut cov = 0u64;
    let mut ft = 0u64;
    let mut corp = 0u64;
    let mut artifacts: Vec<String> = vec![];
    for (k, mut c) in children.into_iter().enumerate() {
        let _ = c.wait();
        let log = std::fs::read_to_string(format!("{}/log-{}.txt", work, k)).unwrap_or_default();
        for line in log.lines() {
            if let Some(r) = line.strip_prefix("stat::number_of_executed_units:") {
                total_runs += r.trim().parse::<u64>().unwrap_or(0);
            }
            if line.starts_with('#') && line.contains(" cov: ") {
                let get = |key: &str| line.split(key).nth(1).and_then(|x| x.split_whitespace().next()).and_then(|x| x.split('/').next()).and_then(|x| x.parse::<u64>().ok()).unwrap_or(0);
                cov = cov.max(get(" cov: "));
                ft = ft.max(get(" ft: "));
                corp = corp.max(get(" corp: "));
            }
        }
        if let Ok(rd) = std::fs::read_dir(format!("{}/artifacts-{}", work, k)) {
            for e in rd.filter_map(|e| e.ok()) {
                artifacts.push(e.path().to_string_lossy().into_owned());
            }
        }
    }
    artifacts.sort();
    // every artifact is re-executed through the strict replay path; only a confirmed failure is a violation
    let mut confirmed: Option<Violation> = None;
    let mut unconfirmed = 0u64;
    let mut w = WorkerHandle::new(id, tier);
    for a in &artifacts {
        let bytes = std::fs::read(a).unwrap_or_default();
        let kind = if text_mode {
            match String::from_utf8(bytes) {
                Ok(t) => ReplayKind::Text { text: t },
                Err(_) => {
                    unconfirmed += 1;
                    continue;
                }
            }
        } else {
            ReplayKind::Tape { tape: bytes, avoid: true }
        };
        match exec_kind(&mut w, &kind, true, cpu_ms) {
            Exec::Fail { assertion, message, rendering } => {
                // minimise tapes with the delta debugger before reporting
                let kind = match kind {
                    ReplayKind::Tape { tape, avoid } => {
                        let mut evals = 0;
                        ReplayKind::Tape { tape: ddmin(&mut w, tape, avoid, cpu_ms.min(2000), &mut evals), avoid }
                    }
                    k => k,
                };
                let (assertion, message, rendering) = match exec_kind(&mut w, &kind, true, cpu_ms) {
                    Exec::Fail { assertion, message, rendering } => (assertion, message, rendering),
                    _ => (assertion, message, rendering),
                };
                if confirmed.is_none() {
                    confirmed = Some(Violation { front_end: "libFuzzer".into(), kind, assertion, message, rendering, existing_path: None });
                }
            }
            Exec::Infra(e) => return Err(e),
            _ => unconfirmed += 1,
        }
    }
    let stats = json!({"front_end": "libFuzzer (coverage-guided, same decode+check in-target)", "processes": procs, "runs_per_process": runs, "runs": total_runs, "input": if text_mode { "raw text" } else { "choice tape" },
        "cov": cov, "ft": ft, "corpus": corp, "artifacts": artifacts.len(), "artifacts_not_confirmed_by_strict_replay": unconfirmed});
    Ok((stats, confirmed))
}

// ------------------------------------------------------------------------------------------
// top level

pub fn env_seed() -> u64 {
    std::env::var("VERIF_SEED")
        .ok()
        .and_then(|s| s.trim().parse::<i64>().ok())
        .map(|v| v as u64)
        .unwrap_or(0)
}

pub fn replay_main(id: &str, path: &str) -> i32 {
    let Some(_p) = crate::lookup(id) else {
        println!("ERROR: unknown property {}", id);
        return 2;
    };
    let kind = match load_replay(path) {
        Ok(k) => k,
        Err(e) => {
            println!("ERROR: {}", e);
            return 2;
        }
    };
    let tier = if let ReplayKind::Enum { tier, .. } = &kind { *tier } else { Tier::Quick };
    let mut w = WorkerHandle::new(id, tier);
    match exec_kind(&mut w, &kind, true, 20_000) {
        Exec::Pass(rep) => {
            println!("replay {}: PASS\n{}", path, rep.rendering.unwrap_or_default());
            0
        }
        Exec::NotApplicable => {
            println!("replay {}: case is outside the property's domain (pass)", path);
            0
        }
        Exec::Known(fid, _) => {
            println!("KNOWN-FINDING: property={} {} (replay {})", id, fid, path);
            0
        }
        Exec::Fail { assertion, message, rendering } => {
            println!("replay {}: FAIL [{}] {}\n{}", path, assertion, message, rendering);
            println!("VIOLATION property={} replay={}", id, path);
            1
        }
        Exec::Infra(e) => {
            println!("ERROR: {}", e);
            2
        }
    }
}

pub fn run_main(id: &str, tier: Tier) -> i32 {
    let t0 = std::time::Instant::now();
    let Some(prop) = crate::lookup(id) else {
        println!("ERROR: unknown property {}", id);
        return 2;
    };
    let seed = env_seed();
    // whole-check watchdog: inconclusive, never a violation
    std::thread::spawn(|| {
        std::thread::sleep(std::time::Duration::from_secs(55 * 60));
        println!("ERROR: check exceeded its 55 min wall-clock limit (inconclusive)");
        std::process::exit(2);
    });
    let budget = prop.budget(tier);
    // VP_CPU_MS: diagnostic override of the per-case CPU budget (used to measure the margin of the watchdog on the unchanged tree)
    let cpu_ms = std::env::var("VP_CPU_MS").ok().and_then(|v| v.parse().ok()).unwrap_or(budget.cpu_s * 1000);
    let listed = known::for_property(id);
    let mut ev = Evidence {
        property_id: id.to_string(),
        tier: tier.name().to_string(),
        seed,
        level: prop.level().to_string(),
        rule: prop.rule(),
        assumptions: prop.assumptions(),
        ..Default::default()
    };
    let mut violation: Option<Violation> = None;
    let mut error: Option<String> = None;

    // 1. regression tier: every saved replay
    let rdir = format!("{}/replays/{}", known::root(), id);
    let mut files: Vec<String> = std::fs::read_dir(&rdir)
        .map(|d| d.filter_map(|e| e.ok()).map(|e| e.path().to_string_lossy().into_owned()).filter(|p| p.ends_with(".json")).collect())
        .unwrap_or_default();
    files.sort();
    {
        let mut w = WorkerHandle::new(id, tier);
        let mut n = 0u64;
        let mut passed = 0u64;
        for f in &files {
            let kind = match load_replay(f) {
                Ok(k) => k,
                Err(e) => {
                    error = Some(e);
                    break;
                }
            };
            if let ReplayKind::Enum { tier: t, .. } = &kind {
                if *t != tier {
                    // enumeration indices are tier-specific; replay them with a worker of that tier
                    let mut w2 = WorkerHandle::new(id, *t);
                    n += 1;
                    match exec_kind(&mut w2, &kind, true, cpu_ms) {
                        Exec::Fail { assertion, message, rendering } => {
                            violation = Some(Violation { front_end: "regression replay".into(), kind, assertion, message, rendering, existing_path: Some(f.clone()) });
                            break;
                        }
                        Exec::Infra(e) => {
                            error = Some(e);
                            break;
                        }
                        Exec::Known(fid, _) => *ev.known_hits.entry(fid).or_default() += 1,
                        _ => passed += 1,
                    }
                    continue;
                }
            }
            n += 1;
            match exec_kind(&mut w, &kind, true, cpu_ms) {
                Exec::Fail { assertion, message, rendering } => {
                    violation = Some(Violation { front_end: "regression replay".into(), kind, assertion, message, rendering, existing_path: Some(f.clone()) });
                    break;
                }
                Exec::Infra(e) => {
                    error = Some(e);
                    break;
                }
                Exec::Known(fid, _) => *ev.known_hits.entry(fid).or_default() += 1,
                _ => passed += 1,
            }
        }
        ev.evaluations += n;
        ev.sub_runs.push(json!({"front_end": "regression replays", "files": files.len(), "executed": n, "passed": passed}));
    }

    // 2. bounded-exhaustive enumerations
    let mut inner = 0u64;
    let mut all_exhaustive = true;
    let mut any_enum = false;
    if violation.is_none() && error.is_none() {
        for (si, sp) in prop.spaces(tier).iter().enumerate() {
            any_enum = true;
            let t1 = std::time::Instant::now();
            let r = run_space(id, tier, si, &sp.name, sp.size, cpu_ms);
            ev.evaluations += r.agg.evaluated;
            ev.distinct_nontrivial += r.agg.nontrivial;
            ev.excluded_known += r.agg.excluded_known;
            inner += r.agg.inner_evaluations;
            for (k, v) in &r.agg.labels {
                *ev.labels.entry(k.clone()).or_default() += v;
            }
            for (k, v) in &r.agg.known_hits {
                *ev.known_hits.entry(k.clone()).or_default() += v;
            }
            for s in r.agg.samples.iter().take(4) {
                if ev.samples.len() < 10 {
                    ev.samples.push(format!("[enum {}] {}", sp.name, s));
                }
            }
            ev.sub_runs.push(json!({"front_end": "enumeration", "space": sp.name, "size": sp.size, "evaluated": r.agg.evaluated,
                "nontrivial": r.agg.nontrivial, "exhaustive": r.completed && sp.exhaustive, "wall_s": t1.elapsed().as_secs_f64()}));
            if !(r.completed && sp.exhaustive) {
                all_exhaustive = false;
            }
            if let Some(e) = r.error {
                error = Some(e);
                break;
            }
            if let Some(v) = r.violation {
                violation = Some(v);
                break;
            }
        }
    }

    // 3. random lanes
    let mut random_ran = false;
    if violation.is_none() && error.is_none() && budget.cases_per_lane > 0 {
        random_ran = true;
        let t1 = std::time::Instant::now();
        let confirm_lanes = if listed.is_empty() { 0 } else { 2 };
        let mut hs = vec![];
        for lane in 0..LANES {
            let id = id.to_string();
            let avoid = lane < LANES - confirm_lanes;
            let cases = budget.cases_per_lane;
            let tm = budget.tape_max;
            hs.push(std::thread::spawn(move || random_lane(&id, tier, lane, seed, cases, tm, avoid, cpu_ms)));
        }
        let mut distinct: HashSet<u64> = HashSet::new();
        let mut total = 0u64;
        let mut shrink = 0u64;
        let mut samples: Vec<(usize, String)> = vec![];
        for (lane, h) in hs.into_iter().enumerate() {
            match h.join() {
                Ok(r) => {
                    total += r.evaluated;
                    shrink += r.shrink_evals;
                    distinct.extend(r.nontrivial.iter());
                    ev.excluded_known += r.excluded_known;
                    inner += r.inner_evaluations;
                    for (k, v) in &r.labels {
                        *ev.labels.entry(k.clone()).or_default() += v;
                    }
                    for (k, v) in &r.known_hits {
                        *ev.known_hits.entry(k.clone()).or_default() += v;
                    }
                    samples.extend(r.samples.into_iter().take(2));
                    if let Some(e) = r.error {
                        error.get_or_insert(e);
                    }
                    if let Some(v) = r.violation {
                        if violation.is_none() {
                            violation = Some(v);
                        }
                    }
                }
                Err(_) => {
                    error.get_or_insert(format!("lane {} panicked", lane));
                }
            }
        }
        ev.evaluations += total + shrink;
        ev.distinct_nontrivial += distinct.len() as u64;
        samples.sort_by_key(|x| std::cmp::Reverse(x.0));
        let n = samples.len();
        for (i, (_, s)) in samples.into_iter().enumerate() {
            // the largest two and a spread of the rest
            if i < 2 || i % (n / 4).max(1) == 0 {
                if ev.samples.len() < 16 {
                    ev.samples.push(s);
                }
            }
        }
        ev.sub_runs.push(json!({"front_end": "random (proptest over choice tapes)", "lanes": LANES, "cases_per_lane": budget.cases_per_lane,
            "tape_max": budget.tape_max, "evaluated": total, "shrink_evaluations": shrink, "distinct_nontrivial": distinct.len(),
            "confirm_lanes_for_known_findings": confirm_lanes, "wall_s": t1.elapsed().as_secs_f64()}));
    }
    ev.exhaustive_all = any_enum && all_exhaustive && !random_ran;

    // 3b. coverage-guided libFuzzer campaign over the same decode + check pair (thorough tier; the wrapper builds the
    // target and passes its path)
    if violation.is_none() && error.is_none() {
        if let Ok(bin) = std::env::var("VP_FUZZ_BIN") {
            let t1 = std::time::Instant::now();
            match fuzz_stage(id, tier, seed, &bin, budget.tape_max, cpu_ms) {
                Ok((stats, v)) => {
                    ev.evaluations += stats["runs"].as_u64().unwrap_or(0);
                    let mut st = stats;
                    st["wall_s"] = json!(t1.elapsed().as_secs_f64());
                    ev.sub_runs.push(st);
                    violation = v;
                }
                Err(e) => error = Some(e),
            }
        }
    }

    // 4. outcome
    if violation.is_none() && error.is_none() {
        let unseen: Vec<&str> = prop.expected_labels().into_iter().filter(|l| !ev.labels.contains_key(*l)).collect();
        ev.extra.insert("labels_expected_but_unseen".into(), json!(unseen));
        for l in &unseen {
            println!("WARNING: generator health: no case with label {:?} was produced in this run", l);
        }
    }
    let unrep = UNREPRODUCED_WATCHDOGS.load(Ordering::SeqCst);
    if unrep > 0 {
        ev.extra.insert("watchdog_kills_not_reproduced_on_second_execution".into(), json!(unrep));
        println!("NOTE: {} watchdog kill(s) / worker death(s) did not happen again when the case was executed again after a pause; they are not counted (host load)", unrep);
    }
    if inner > 0 {
        ev.extra.insert("inner_evaluations".into(), json!(inner));
        ev.extra.insert("inner_evaluations_note".into(), json!("oracle evaluations performed inside cases (e.g. every fault applied to one generated message); not included in 'evaluations'"));
    }
    ev.wall_s = t0.elapsed().as_secs_f64();
    ev.violations = violation.is_some() as u64;
    let mut code = 0;
    if let Some(e) = &error {
        println!("ERROR: {}", e);
        code = 2;
    }
    for f in &listed {
        let hits = ev.known_hits.get(&f.id).copied().unwrap_or(0);
        println!("KNOWN-FINDING: property={} {} {} (observed {} times in this run)", id, f.id, f.summary, hits);
    }
    if code == 0 {
        if let Some(v) = &violation {
            let path = write_replay(id, v);
            println!("--- violation of {} found by {} ---", id, v.front_end);
            println!("assertion: {}\nmessage: {}\ncase:\n{}", v.assertion, v.message, v.rendering);
            println!("VIOLATION property={} replay={}", id, path);
            code = 1;
        }
    }
    if ev.samples.is_empty() {
        ev.samples.push("(no non-trivial sample was rendered in this run)".into());
    }
    match ev.write(&known::root()) {
        Ok(p) => println!("{} {}: evaluations={} distinct_nontrivial={} wall={:.1}s evidence={}", id, tier.name(), ev.evaluations, ev.distinct_nontrivial, ev.wall_s, p),
        Err(e) => {
            println!("ERROR: cannot write evidence: {}", e);
            code = 2;
        }
    }
    code
}
