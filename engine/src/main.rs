use vp_engine::{lookup, runner, worker, Tier};

fn tier_of(s: &str) -> Tier {
    match s {
        "thorough" => Tier::Thorough,
        _ => Tier::Quick,
    }
}

fn main() {
    let args: Vec<String> = std::env::args().collect();
    let code = match args.get(1).map(|s| s.as_str()) {
        Some("worker") => {
            let id = &args[2];
            let tier = tier_of(args.get(3).map(|s| s.as_str()).unwrap_or("quick"));
            match lookup(id) {
                Some(p) => worker::worker_main(p, tier),
                None => 2,
            }
        }
        Some("run") => {
            let id = &args[2];
            let tier = tier_of(args.get(3).map(|s| s.as_str()).unwrap_or("quick"));
            runner::run_main(id, tier)
        }
        Some("replay") => runner::replay_main(&args[2], &args[3]),
        _ => {
            eprintln!("usage: vp-engine run <ID> quick|thorough | replay <ID> <file> | worker <ID> <tier>");
            2
        }
    };
    std::process::exit(code);
}
