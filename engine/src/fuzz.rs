//! libFuzzer front-end: the same decode + check pair as the other front-ends, driven by coverage-guided mutation.
use crate::Prop;
use std::sync::OnceLock;

static PROP: OnceLock<(String, Box<dyn Prop>, bool)> = OnceLock::new();

/// properties whose cases are raw texts (the fuzzer mutates the text itself)
pub const TEXT_PROPS: &[&str] = &["C01", "C06", "C09"];

pub fn fuzz_one(data: &[u8]) {
    let (id, prop, text_mode) = PROP.get_or_init(|| {
        let id = std::env::var("VP_PROP").expect("VP_PROP must name the property");
        let text_mode = TEXT_PROPS.contains(&id.as_str()) && std::env::var("VP_FUZZ_TAPE").is_err();
        crate::worker::install_quiet_panic_hook();
        crate::LIGHT_MODE.store(true, std::sync::atomic::Ordering::Relaxed);
        let p = crate::lookup(&id).expect("unknown property");
        (id, p, text_mode)
    });
    let rep = if *text_mode {
        match std::str::from_utf8(data) {
            Ok(s) => match prop.run_text(s, false) {
                Some(r) => r,
                None => return,
            },
            Err(_) => return,
        }
    } else {
        prop.run_tape(data, true, false)
    };
    if let Some(f) = &rep.failure {
        if f.assertion.starts_with("infra/") || f.assertion == "harness-panic" {
            return;
        }
        if let Some(fid) = &rep.finding {
            if crate::known::is_listed(fid) {
                return;
            }
        }
        // restore the default hook so that libFuzzer sees a normal abort with a message
        let _ = std::panic::take_hook();
        panic!("VIOLATION candidate property={} assertion={} message={}", id, f.assertion, f.message);
    }
}
