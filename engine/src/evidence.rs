//! Evidence file writer (/verif/evidence/<ID>.json, schema /root/.vp/EVIDENCE.schema.json).
use serde_json::{json, Value};
use std::collections::BTreeMap;

#[derive(Default)]
pub struct Evidence {
    pub property_id: String,
    pub tier: String,
    pub seed: u64,
    pub level: String,
    pub rule: String,
    pub assumptions: Vec<String>,
    pub evaluations: u64,
    pub distinct_nontrivial: u64,
    pub samples: Vec<String>,
    pub labels: BTreeMap<String, u64>,
    pub sub_runs: Vec<Value>,
    pub known_hits: BTreeMap<String, u64>,
    pub excluded_known: u64,
    pub exhaustive_all: bool,
    pub wall_s: f64,
    pub violations: u64,
    pub extra: BTreeMap<String, Value>,
}

impl Evidence {
    pub fn write(&self, root: &str) -> std::io::Result<String> {
        let mut coverage = json!({
            "evaluations": self.evaluations,
            "distinct_nontrivial": self.distinct_nontrivial,
            "rule": self.rule,
            "samples": self.samples,
            "label_histogram": self.labels,
            "sub_runs": self.sub_runs,
            "known_finding_hits": self.known_hits,
            "excluded_known": self.excluded_known,
            "exhaustive": self.exhaustive_all,
        });
        for (k, v) in &self.extra {
            coverage[k] = v.clone();
        }
        let doc = json!({
            "property_id": self.property_id,
            "tier": self.tier,
            "seed": self.seed,
            "level": self.level,
            "coverage": coverage,
            "assumptions": self.assumptions,
            "wall_s": self.wall_s,
            "violations": self.violations,
        });
        let dir = format!("{}/evidence", root);
        std::fs::create_dir_all(&dir)?;
        let path = format!("{}/{}.json", dir, self.property_id);
        let tmp = format!("{}.tmp.{}", path, std::process::id());
        std::fs::write(&tmp, serde_json::to_string_pretty(&doc).unwrap() + "\n")?;
        std::fs::rename(&tmp, &path)?;
        Ok(path)
    }
}
