//! Fork-server style workers: the generating/shrinking parent never runs repository code.
//! A worker executes cases sent over a pipe, watches its own CPU time and memory from a watchdog
//! thread (a hang or an allocating loop becomes a *decided outcome*), and reports verdicts.
use crate::{CaseReport, Failure, Prop, Tier};
use std::collections::BTreeMap;
use std::io::{Read, Write};
use std::process::{Child, ChildStdin, ChildStdout, Command, Stdio};
use std::sync::atomic::{AtomicU64, Ordering};
use std::sync::Mutex;

// ---------------------------------------------------------------- wire helpers

pub struct W(pub Vec<u8>);
impl W {
    pub fn new() -> Self {
        W(Vec::new())
    }
    pub fn u8(&mut self, v: u8) {
        self.0.push(v)
    }
    pub fn u32(&mut self, v: u32) {
        self.0.extend_from_slice(&v.to_le_bytes())
    }
    pub fn u64(&mut self, v: u64) {
        self.0.extend_from_slice(&v.to_le_bytes())
    }
    pub fn bytes(&mut self, b: &[u8]) {
        self.u32(b.len() as u32);
        self.0.extend_from_slice(b)
    }
    pub fn str(&mut self, s: &str) {
        self.bytes(s.as_bytes())
    }
}

pub struct R<'a>(pub &'a [u8], pub usize);
impl<'a> R<'a> {
    pub fn u8(&mut self) -> u8 {
        let v = self.0[self.1];
        self.1 += 1;
        v
    }
    pub fn u32(&mut self) -> u32 {
        let v = u32::from_le_bytes(self.0[self.1..self.1 + 4].try_into().unwrap());
        self.1 += 4;
        v
    }
    pub fn u64(&mut self) -> u64 {
        let v = u64::from_le_bytes(self.0[self.1..self.1 + 8].try_into().unwrap());
        self.1 += 8;
        v
    }
    pub fn bytes(&mut self) -> &'a [u8] {
        let n = self.u32() as usize;
        let b = &self.0[self.1..self.1 + n];
        self.1 += n;
        b
    }
    pub fn str(&mut self) -> String {
        String::from_utf8_lossy(self.bytes()).into_owned()
    }
}

fn enc_report(w: &mut W, r: &CaseReport) {
    match &r.failure {
        None => w.u8(0),
        Some(f) => {
            w.u8(1);
            w.str(&f.assertion);
            w.str(&f.message);
            w.str(r.finding.as_deref().unwrap_or(""));
        }
    }
    w.u8(r.nontrivial as u8 | ((r.dup_of_enum as u8) << 1));
    w.u64(r.hash);
    w.u32(r.excluded_known);
    w.u32(r.inner_evaluations);
    w.u32(r.labels.len() as u32);
    for l in &r.labels {
        w.str(l);
    }
    match &r.rendering {
        None => w.u8(0),
        Some(s) => {
            w.u8(1);
            w.str(s)
        }
    }
}

fn dec_report(r: &mut R) -> CaseReport {
    let (failure, finding) = if r.u8() == 1 {
        let a = r.str();
        let m = r.str();
        let f = r.str();
        (
            Some(Failure {
                assertion: a,
                message: m,
            }),
            if f.is_empty() { None } else { Some(f) },
        )
    } else {
        (None, None)
    };
    let fl = r.u8();
    let hash = r.u64();
    let excluded_known = r.u32();
    let inner_evaluations = r.u32();
    let n = r.u32();
    let mut labels = Vec::new();
    for _ in 0..n {
        labels.push(r.str());
    }
    let rendering = if r.u8() == 1 { Some(r.str()) } else { None };
    CaseReport {
        failure,
        finding,
        labels,
        nontrivial: fl & 1 != 0,
        dup_of_enum: fl & 2 != 0,
        hash,
        excluded_known,
        inner_evaluations,
        rendering,
    }
}

// ---------------------------------------------------------------- requests / responses

pub const OP_TAPE: u8 = 1;
pub const OP_ENUM: u8 = 2;
pub const OP_TEXT: u8 = 3;
pub const OP_RENDER_TAPE: u8 = 4;
pub const OP_RENDER_ENUM: u8 = 5;

pub const FLAG_AVOID: u8 = 1;
pub const FLAG_RENDER: u8 = 2;

#[derive(Debug, Default, Clone)]
pub struct BatchAgg {
    pub evaluated: u64,
    pub nontrivial: u64,
    pub known_hits: BTreeMap<String, u64>,
    pub labels: BTreeMap<String, u64>,
    pub samples: Vec<String>,
    pub excluded_known: u64,
    pub inner_evaluations: u64,
}

impl BatchAgg {
    pub fn merge(&mut self, o: &BatchAgg) {
        self.evaluated += o.evaluated;
        self.nontrivial += o.nontrivial;
        self.excluded_known += o.excluded_known;
        self.inner_evaluations += o.inner_evaluations;
        for (k, v) in &o.known_hits {
            *self.known_hits.entry(k.clone()).or_default() += v;
        }
        for (k, v) in &o.labels {
            *self.labels.entry(k.clone()).or_default() += v;
        }
    }
}

#[derive(Debug)]
pub enum Resp {
    Case(CaseReport),
    Batch(BatchAgg, Option<(u64, CaseReport)>),
    /// watchdog: 2 = CPU budget exceeded (diverges), 3 = memory budget exceeded
    Watchdog(u8, u64),
    /// the worker died without answering (signal / exit code)
    Died(String),
    /// text not in the property's domain
    NotApplicable,
    Rendered(String),
}

// ---------------------------------------------------------------- worker side

static CASE_START_NS: AtomicU64 = AtomicU64::new(0);
static CASE_SEQ: AtomicU64 = AtomicU64::new(0);
static CUR_INDEX: AtomicU64 = AtomicU64::new(0);
static BUDGET_NS: AtomicU64 = AtomicU64::new(10_000_000_000);
static OUT_LOCK: Mutex<()> = Mutex::new(());
const RSS_LIMIT_PAGES: u64 = (2u64 << 30) / 4096;

fn cpu_ns() -> u64 {
    let mut ts = libc::timespec {
        tv_sec: 0,
        tv_nsec: 0,
    };
    unsafe { libc::clock_gettime(libc::CLOCK_PROCESS_CPUTIME_ID, &mut ts) };
    ts.tv_sec as u64 * 1_000_000_000 + ts.tv_nsec as u64
}

fn raw_write_frame(payload: &[u8]) {
    let mut buf = Vec::with_capacity(payload.len() + 4);
    buf.extend_from_slice(&(payload.len() as u32).to_le_bytes());
    buf.extend_from_slice(payload);
    let mut off = 0;
    while off < buf.len() {
        let n = unsafe { libc::write(1, buf[off..].as_ptr() as *const libc::c_void, buf.len() - off) };
        if n <= 0 {
            unsafe { libc::_exit(4) };
        }
        off += n as usize;
    }
}

fn rss_pages() -> u64 {
    let Ok(s) = std::fs::read_to_string("/proc/self/statm") else {
        return 0;
    };
    s.split_whitespace()
        .nth(1)
        .and_then(|x| x.parse().ok())
        .unwrap_or(0)
}

fn watchdog_loop() {
    loop {
        std::thread::sleep(std::time::Duration::from_millis(10));
        let start = CASE_START_NS.load(Ordering::SeqCst);
        if start == 0 {
            continue;
        }
        let seq = CASE_SEQ.load(Ordering::SeqCst);
        let over_cpu = cpu_ns().saturating_sub(start) > BUDGET_NS.load(Ordering::SeqCst);
        let over_mem = rss_pages() > RSS_LIMIT_PAGES;
        if over_cpu || over_mem {
            let _g = OUT_LOCK.lock();
            if CASE_START_NS.load(Ordering::SeqCst) != 0 && CASE_SEQ.load(Ordering::SeqCst) == seq {
                let mut w = W::new();
                w.u8(3);
                w.u8(if over_mem { 3 } else { 2 });
                w.u64(CUR_INDEX.load(Ordering::SeqCst));
                raw_write_frame(&w.0);
                unsafe { libc::_exit(0) };
            }
        }
    }
}

fn begin_case(index: u64) {
    CUR_INDEX.store(index, Ordering::SeqCst);
    CASE_SEQ.fetch_add(1, Ordering::SeqCst);
    CASE_START_NS.store(cpu_ns().max(1), Ordering::SeqCst);
}
fn end_case() {
    CASE_START_NS.store(0, Ordering::SeqCst);
}

thread_local! {
    pub static LAST_PANIC_LOC: std::cell::RefCell<String> = std::cell::RefCell::new(String::new());
}

pub fn install_quiet_panic_hook() {
    std::panic::set_hook(Box::new(|info| {
        let loc = info
            .location()
            .map(|l| format!("{}:{}:{}", l.file(), l.line(), l.column()))
            .unwrap_or_default();
        LAST_PANIC_LOC.with(|c| *c.borrow_mut() = loc);
    }));
}

fn read_frame(r: &mut impl Read) -> Option<Vec<u8>> {
    let mut len = [0u8; 4];
    r.read_exact(&mut len).ok()?;
    let n = u32::from_le_bytes(len) as usize;
    let mut buf = vec![0u8; n];
    r.read_exact(&mut buf).ok()?;
    Some(buf)
}

/// Main loop of `vp-engine worker <ID> <tier>`.
pub fn worker_main(prop: Box<dyn Prop>, tier: Tier) -> ! {
    unsafe {
        let lim = libc::rlimit {
            rlim_cur: 8u64 << 30,
            rlim_max: 8u64 << 30,
        };
        libc::setrlimit(libc::RLIMIT_AS, &lim);
    }
    install_quiet_panic_hook();
    let _ = crate::known::all();
    std::thread::spawn(watchdog_loop);
    let stdin = std::io::stdin();
    let mut stdin = stdin.lock();
    loop {
        let Some(req) = read_frame(&mut stdin) else {
            unsafe { libc::_exit(0) };
        };
        let mut r = R(&req, 0);
        let op = r.u8();
        let flags = r.u8();
        let budget_ms = r.u32();
        BUDGET_NS.store(budget_ms as u64 * 1_000_000, Ordering::SeqCst);
        let mut w = W::new();
        match op {
            OP_TAPE => {
                let tape = r.bytes();
                begin_case(0);
                let rep = prop.run_tape(tape, flags & FLAG_AVOID != 0, flags & FLAG_RENDER != 0);
                end_case();
                w.u8(1);
                enc_report(&mut w, &rep);
            }
            OP_TEXT => {
                let text = r.str();
                begin_case(0);
                let rep = prop.run_text(&text, flags & FLAG_RENDER != 0);
                end_case();
                match rep {
                    Some(rep) => {
                        w.u8(1);
                        enc_report(&mut w, &rep);
                    }
                    None => w.u8(4),
                }
            }
            OP_RENDER_TAPE => {
                let tape = r.bytes();
                w.u8(5);
                w.str(&prop.render_tape(tape, flags & FLAG_AVOID != 0));
            }
            OP_RENDER_ENUM => {
                let space = r.u32() as usize;
                let idx = r.u64();
                w.u8(5);
                w.str(&prop.render_enum(tier, space, idx));
            }
            OP_ENUM => {
                let space = r.u32() as usize;
                let start = r.u64();
                let end = r.u64();
                let mut agg = BatchAgg::default();
                let mut fail: Option<(u64, CaseReport)> = None;
                let nsamples = if flags & FLAG_RENDER != 0 { 2 } else { 0 };
                for idx in start..end {
                    begin_case(idx);
                    let want = agg.samples.len() < nsamples;
                    let rep = prop.run_enum(tier, space, idx, want);
                    end_case();
                    agg.evaluated += 1;
                    agg.excluded_known += rep.excluded_known as u64;
                    agg.inner_evaluations += rep.inner_evaluations as u64;
                    if rep.nontrivial {
                        agg.nontrivial += 1;
                    }
                    for l in &rep.labels {
                        *agg.labels.entry(l.clone()).or_default() += 1;
                    }
                    if rep.failure.is_some() {
                        if let Some(f) = rep.finding.as_ref().filter(|f| crate::known::is_listed(f)) {
                            *agg.known_hits.entry(f.clone()).or_default() += 1;
                            continue;
                        }
                        fail = Some((idx, rep));
                        break;
                    }
                    if want && rep.nontrivial {
                        if let Some(s) = rep.rendering {
                            agg.samples.push(s);
                        }
                    }
                }
                w.u8(2);
                w.u64(agg.evaluated);
                w.u64(agg.nontrivial);
                w.u64(agg.excluded_known);
                w.u64(agg.inner_evaluations);
                w.u32(agg.known_hits.len() as u32);
                for (k, v) in &agg.known_hits {
                    w.str(k);
                    w.u64(*v);
                }
                w.u32(agg.labels.len() as u32);
                for (k, v) in &agg.labels {
                    w.str(k);
                    w.u64(*v);
                }
                w.u32(agg.samples.len() as u32);
                for s in &agg.samples {
                    w.str(s);
                }
                match &fail {
                    None => w.u8(0),
                    Some((idx, rep)) => {
                        w.u8(1);
                        w.u64(*idx);
                        enc_report(&mut w, rep);
                    }
                }
            }
            _ => unsafe { libc::_exit(5) },
        }
        let _g = OUT_LOCK.lock();
        raw_write_frame(&w.0);
    }
}

// ---------------------------------------------------------------- parent side

pub struct WorkerHandle {
    id: String,
    tier: Tier,
    child: Option<(Child, ChildStdin, ChildStdout)>,
    pub respawns: u64,
}

impl WorkerHandle {
    pub fn new(id: &str, tier: Tier) -> Self {
        WorkerHandle {
            id: id.to_string(),
            tier,
            child: None,
            respawns: 0,
        }
    }

    fn ensure(&mut self) -> Result<(), String> {
        if self.child.is_some() {
            return Ok(());
        }
        // /proc/self/exe keeps working when the binary on disk is replaced by a rebuild while a run is in progress
        let proc_exe = std::path::PathBuf::from("/proc/self/exe");
        let exe = if proc_exe.exists() { proc_exe } else { std::env::current_exe().map_err(|e| e.to_string())? };
        let mut c = Command::new(exe)
            .arg("worker")
            .arg(&self.id)
            .arg(self.tier.name())
            .stdin(Stdio::piped())
            .stdout(Stdio::piped())
            .stderr(Stdio::null())
            .spawn()
            .map_err(|e| format!("cannot spawn worker: {}", e))?;
        let i = c.stdin.take().unwrap();
        let o = c.stdout.take().unwrap();
        self.child = Some((c, i, o));
        self.respawns += 1;
        Ok(())
    }

    fn kill(&mut self) -> String {
        if let Some((mut c, i, o)) = self.child.take() {
            drop(i);
            drop(o);
            let _ = c.kill();
            match c.wait() {
                Ok(st) => {
                    use std::os::unix::process::ExitStatusExt;
                    if let Some(sig) = st.signal() {
                        format!("signal {}", sig)
                    } else {
                        format!("exit code {:?}", st.code())
                    }
                }
                Err(e) => e.to_string(),
            }
        } else {
            "not running".into()
        }
    }

    fn roundtrip(&mut self, req: &[u8]) -> Result<Resp, String> {
        self.ensure()?;
        let (_, i, o) = self.child.as_mut().unwrap();
        let mut frame = Vec::with_capacity(req.len() + 4);
        frame.extend_from_slice(&(req.len() as u32).to_le_bytes());
        frame.extend_from_slice(req);
        if i.write_all(&frame).is_err() || i.flush().is_err() {
            let how = self.wait_dead();
            return Ok(Resp::Died(how));
        }
        match read_frame(o) {
            None => {
                let how = self.wait_dead();
                Ok(Resp::Died(how))
            }
            Some(buf) => {
                let mut r = R(&buf, 0);
                match r.u8() {
                    1 => Ok(Resp::Case(dec_report(&mut r))),
                    4 => Ok(Resp::NotApplicable),
                    5 => Ok(Resp::Rendered(r.str())),
                    2 => {
                        let mut agg = BatchAgg::default();
                        agg.evaluated = r.u64();
                        agg.nontrivial = r.u64();
                        agg.excluded_known = r.u64();
                        agg.inner_evaluations = r.u64();
                        for _ in 0..r.u32() {
                            let k = r.str();
                            let v = r.u64();
                            agg.known_hits.insert(k, v);
                        }
                        for _ in 0..r.u32() {
                            let k = r.str();
                            let v = r.u64();
                            agg.labels.insert(k, v);
                        }
                        for _ in 0..r.u32() {
                            agg.samples.push(r.str());
                        }
                        let fail = if r.u8() == 1 {
                            let idx = r.u64();
                            Some((idx, dec_report(&mut r)))
                        } else {
                            None
                        };
                        Ok(Resp::Batch(agg, fail))
                    }
                    3 => {
                        let what = r.u8();
                        let idx = r.u64();
                        // the worker has exited by itself
                        self.wait_dead();
                        Ok(Resp::Watchdog(what, idx))
                    }
                    k => Err(format!("protocol error: response kind {}", k)),
                }
            }
        }
    }

    fn wait_dead(&mut self) -> String {
        if let Some((mut c, i, o)) = self.child.take() {
            drop(i);
            drop(o);
            match c.wait() {
                Ok(st) => {
                    use std::os::unix::process::ExitStatusExt;
                    if let Some(sig) = st.signal() {
                        format!("signal {}", sig)
                    } else {
                        format!("exit code {:?}", st.code())
                    }
                }
                Err(e) => e.to_string(),
            }
        } else {
            "not running".into()
        }
    }

    pub fn run_tape(&mut self, tape: &[u8], avoid: bool, render: bool, budget_ms: u32) -> Result<Resp, String> {
        let mut w = W::new();
        w.u8(OP_TAPE);
        w.u8(if avoid { FLAG_AVOID } else { 0 } | if render { FLAG_RENDER } else { 0 });
        w.u32(budget_ms);
        w.bytes(tape);
        self.roundtrip(&w.0)
    }

    pub fn run_text(&mut self, text: &str, render: bool, budget_ms: u32) -> Result<Resp, String> {
        let mut w = W::new();
        w.u8(OP_TEXT);
        w.u8(FLAG_AVOID | if render { FLAG_RENDER } else { 0 });
        w.u32(budget_ms);
        w.str(text);
        self.roundtrip(&w.0)
    }

    pub fn run_enum(&mut self, space: usize, start: u64, end: u64, render: bool, budget_ms: u32) -> Result<Resp, String> {
        let mut w = W::new();
        w.u8(OP_ENUM);
        w.u8(FLAG_AVOID | if render { FLAG_RENDER } else { 0 });
        w.u32(budget_ms);
        w.u32(space as u32);
        w.u64(start);
        w.u64(end);
        self.roundtrip(&w.0)
    }

    pub fn render_tape(&mut self, tape: &[u8], avoid: bool) -> String {
        let mut w = W::new();
        w.u8(OP_RENDER_TAPE);
        w.u8(if avoid { FLAG_AVOID } else { 0 });
        w.u32(1000);
        w.bytes(tape);
        match self.roundtrip(&w.0) {
            Ok(Resp::Rendered(s)) => s,
            _ => String::from("(rendering failed)"),
        }
    }

    pub fn render_enum(&mut self, space: usize, index: u64) -> String {
        let mut w = W::new();
        w.u8(OP_RENDER_ENUM);
        w.u8(0);
        w.u32(1000);
        w.u32(space as u32);
        w.u64(index);
        match self.roundtrip(&w.0) {
            Ok(Resp::Rendered(s)) => s,
            _ => String::from("(rendering failed)"),
        }
    }

    pub fn shutdown(&mut self) {
        self.kill();
    }
}

impl Drop for WorkerHandle {
    fn drop(&mut self) {
        self.kill();
    }
}
