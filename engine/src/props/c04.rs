//! C04 Field edits act like list edits, touch nothing else, and survive a re-read.
use crate::gen::doc::{self, Doc};
use crate::gen::scan::{scan, Scan};
use crate::tape::Tape;
use crate::{ensure, ensure_eq, fail, Budget, CheckResult, Ctx, Failure, PropImpl, Space, Tier};
use deb822_lossless::{Deb822, Paragraph};
use std::str::FromStr;

pub struct C04;

#[derive(Debug, Clone)]
pub enum Op {
    Set(usize, String, String),
    Insert(usize, String, String),
    Remove(usize, String),
    Rename(usize, String, String),
}

#[derive(Debug, Clone)]
pub enum Start {
    /// a well-formed document, parsed strictly
    Parsed(String),
    /// Deb822::from_iter over paragraphs built from pairs (alternating String / &str constructors)
    BuiltDoc(Vec<Vec<(String, String)>>),
    /// a stand-alone paragraph built from pairs: 0 = From<Vec<(String,String)>>, 1 = FromIterator<(&str,&str)>, 2 = From<Vec<(&str,&str)>>
    BuiltPara(Vec<(String, String)>, u8),
    /// Deb822::new() followed by k calls of add_paragraph(): k paragraphs without fields, filled by the history
    Added(usize),
    /// a parsed document after Deb822::wrap_and_sort with Paragraph::wrap_and_sort(Spaces(1)) as paragraph function: the
    /// live object returned by that call (its nodes were rebuilt, comments hang directly under the root)
    Wrapped(String),
}

pub struct Case {
    pub start: Start,
    pub ops: Vec<Op>,
    /// use handles obtained before the history (true) or fresh ones for every step (false), per step
    pub old_handles: Vec<bool>,
}

type Model = Vec<Vec<(String, String)>>;

pub fn gen_value(t: &mut Tape) -> String {
    // 1-3 non-empty lines, no leading whitespace, continuation lines not starting with '#'
    let mut lines = vec![nonempty_line(t, false)];
    while t.more(lines.len(), 1, 3, 1, 3) {
        lines.push(nonempty_line(t, true));
    }
    lines.join("\n")
}

fn nonempty_line(t: &mut Tape, cont: bool) -> String {
    doc::gen_line(t, cont, false, true)
}

pub fn build_para(pairs: &[(String, String)], how: u8) -> Paragraph {
    match how % 3 {
        0 => Paragraph::from(pairs.to_vec()),
        1 => pairs.iter().map(|(k, v)| (k.as_str(), v.as_str())).collect(),
        _ => Paragraph::from(pairs.iter().map(|(k, v)| (k.as_str(), v.as_str())).collect::<Vec<(&str, &str)>>()),
    }
}

/// The live objects under test.
pub struct Live {
    pub doc: Option<Deb822>,
    pub standalone: Option<Paragraph>,
    pub handles: Vec<Paragraph>,
}

impl Live {
    pub fn text(&self) -> String {
        match (&self.doc, &self.standalone) {
            (Some(d), _) => d.to_string(),
            (_, Some(p)) => p.to_string(),
            _ => unreachable!(),
        }
    }
    pub fn fresh(&self, i: usize) -> Option<Paragraph> {
        match (&self.doc, &self.standalone) {
            (Some(d), _) => d.paragraphs().nth(i),
            _ => None,
        }
    }
    pub fn live_model(&self) -> Model {
        match (&self.doc, &self.standalone) {
            (Some(d), _) => d.paragraphs().map(|p| p.items().collect()).collect(),
            (_, Some(p)) => vec![p.items().collect()],
            _ => unreachable!(),
        }
    }
}

pub fn start_live(start: &Start) -> Result<(Live, Model), Failure> {
    match start {
        Start::Parsed(text) => {
            let d = Deb822::from_str(text).map_err(|e| Failure { assertion: "start-parses".into(), message: format!("well-formed start document rejected: {:?}", e.to_string()) })?;
            let handles: Vec<Paragraph> = d.paragraphs().collect();
            let model = scan(text).model();
            Ok((Live { doc: Some(d), standalone: None, handles }, model))
        }
        Start::BuiltDoc(paras) => {
            let d: Deb822 = paras.iter().enumerate().map(|(i, p)| build_para(p, i as u8)).collect();
            let handles: Vec<Paragraph> = d.paragraphs().collect();
            Ok((Live { doc: Some(d), standalone: None, handles }, paras.clone()))
        }
        Start::BuiltPara(pairs, how) => {
            let p = build_para(pairs, *how);
            Ok((Live { doc: None, standalone: Some(p), handles: vec![] }, vec![pairs.clone()]))
        }
        Start::Wrapped(text) => {
            let d = Deb822::from_str(text).map_err(|e| Failure { assertion: "start-parses".into(), message: format!("well-formed start document rejected: {:?}", e.to_string()) })?;
            let f = |p: &Paragraph| p.wrap_and_sort(deb822_lossless::Indentation::Spaces(1), false, None, None, None);
            let w = d.wrap_and_sort(None, Some(&f));
            let handles: Vec<Paragraph> = w.paragraphs().collect();
            // the start model is what the live result reports (that reformatting keeps the content is C07's business)
            let model: Model = w.paragraphs().map(|p| p.items().collect()).collect();
            Ok((Live { doc: Some(w), standalone: None, handles }, model))
        }
        Start::Added(k) => {
            let mut d = Deb822::new();
            let handles: Vec<Paragraph> = (0..*k).map(|_| d.add_paragraph()).collect();
            Ok((Live { doc: Some(d), standalone: None, handles }, vec![vec![]; *k]))
        }
    }
}

/// Wildcard for callers that know the field name but not the text a codec writes for the value.
pub const ANY_VALUE: &str = "\u{1}<any value>";

/// Does `x` scan as exactly one field `name` with value `value` (no comments, no blank lines)?
fn is_single_field(x: &str, name: &str, value: &str) -> bool {
    let s = scan(x);
    s.errors.is_empty() && s.comments.is_empty() && s.paras.len() == 1 && s.paras[0].fields.len() == 1 && s.paras[0].fields[0].name == name && (value == ANY_VALUE || s.paras[0].fields[0].value == value)
        && !x.contains("\n\n") && !x.starts_with('\n')
}

/// Frame oracle: compare the text before and after one step.
/// `mi`: index of the touched paragraph among the *non-empty* paragraphs of the old text (None if it had no field).
pub fn check_frame(old: &str, new: &str, sc: &Scan, op: &Op, mi: Option<usize>, step: usize) -> CheckResult {
    let splice_ok = |start: usize, end: usize, name: &str, value: &str, what: &str| -> CheckResult {
        let (pre, suf) = (&old[..start], &old[end..]);
        ensure!(new.starts_with(pre), format!("frame/{}-prefix", what), "step {}: the text before the touched field changed\nold: {:?}\nnew: {:?}", step, old, new);
        ensure!(new.len() >= pre.len() + suf.len() && new.ends_with(suf), format!("frame/{}-suffix", what), "step {}: the text after the touched field changed\nold: {:?}\nnew: {:?}", step, old, new);
        let x = &new[pre.len()..new.len() - suf.len()];
        ensure!(is_single_field(x, name, value), format!("frame/{}-field", what), "step {}: the touched field was rewritten as {:?}, expected one field {:?} with value {:?}\nold: {:?}\nnew: {:?}", step, x, name, value, old, new);
        // the rewritten field must be newline-terminated unless it ends the document
        ensure!(x.ends_with('\n') || suf.is_empty(), format!("frame/{}-newline", what), "step {}: rewritten field {:?} is not newline-terminated but text follows", step, x);
        Ok(())
    };
    let append_ok = |name: &str, value: &str| -> CheckResult {
        // new == old[..x] + nl + X + old[x..] for some line boundary x, nl = "\n" only if old[..x] lacks a final newline
        for &x in &sc.boundaries {
            let (pre, suf) = (&old[..x], &old[x..]);
            if !new.starts_with(pre) || new.len() < pre.len() + suf.len() || !new.ends_with(suf) {
                continue;
            }
            let mut mid = &new[pre.len()..new.len() - suf.len()];
            if !pre.is_empty() && !pre.ends_with('\n') {
                match mid.strip_prefix('\n') {
                    Some(m) => mid = m,
                    None => continue,
                }
            }
            if is_single_field(mid, name, value) && (mid.ends_with('\n') || suf.is_empty()) {
                return Ok(());
            }
        }
        fail("frame/append", format!("step {}: the new text is not the old text plus one new field {:?}={:?} on lines of its own\nold: {:?}\nnew: {:?}", step, name, value, old, new))
    };
    let first_named = |name: &str| mi.and_then(|i| sc.paras[i].fields.iter().find(|f| f.name == name));
    match op {
        Op::Set(_, n, v) => match first_named(n) {
            Some(f) => splice_ok(f.start, f.end, n, v, "set"),
            None => append_ok(n, v),
        },
        Op::Insert(_, n, v) => append_ok(n, v),
        Op::Rename(_, o, n) => match first_named(o) {
            Some(f) => splice_ok(f.start, f.end, n, &f.value.clone(), "rename"),
            None => {
                ensure_eq!(new, old, "frame/rename-absent", "step {}: renaming an absent field changed the text", step);
                Ok(())
            }
        },
        Op::Remove(_, n) => {
            let mut expect = String::new();
            let mut pos = 0;
            if let Some(i) = mi {
                for f in sc.paras[i].fields.iter().filter(|f| &f.name == n) {
                    expect.push_str(&old[pos..f.start]);
                    pos = f.end;
                }
            }
            expect.push_str(&old[pos..]);
            ensure_eq!(new, expect.as_str(), "frame/remove", "step {}: remove({:?}) must delete exactly the fields of that name\nold: {:?}", step, n, old);
            Ok(())
        }
    }
}

pub fn apply_model(model: &mut Model, op: &Op) -> Option<bool> {
    match op {
        Op::Set(p, n, v) => {
            let m = &mut model[*p];
            if let Some(x) = m.iter_mut().find(|x| &x.0 == n) {
                x.1 = v.clone();
            } else {
                m.push((n.clone(), v.clone()));
            }
            None
        }
        Op::Insert(p, n, v) => {
            model[*p].push((n.clone(), v.clone()));
            None
        }
        Op::Remove(p, n) => {
            model[*p].retain(|x| &x.0 != n);
            None
        }
        Op::Rename(p, o, n) => {
            if let Some(x) = model[*p].iter_mut().find(|x| &x.0 == o) {
                x.0 = n.clone();
                Some(true)
            } else {
                Some(false)
            }
        }
    }
}

pub fn apply_live(p: &mut Paragraph, op: &Op) -> Option<bool> {
    match op {
        Op::Set(_, n, v) => {
            p.set(n, v);
            None
        }
        Op::Insert(_, n, v) => {
            p.insert(n, v);
            None
        }
        Op::Remove(_, n) => {
            p.remove(n);
            None
        }
        Op::Rename(_, o, n) => Some(p.rename(o, n)),
    }
}

pub fn nonempty(m: &Model) -> Model {
    m.iter().filter(|p| !p.is_empty()).cloned().collect()
}

pub fn run_history(case: &Case) -> CheckResult {
    let (mut live, mut model) = start_live(&case.start)?;
    ensure_eq!(live.live_model(), model, "start-model", "the start state does not read as the pairs it was built from / written with");
    for (i, op) in case.ops.iter().enumerate() {
        let pi = match op {
            Op::Set(p, ..) | Op::Insert(p, ..) | Op::Remove(p, ..) | Op::Rename(p, ..) => *p,
        };
        let old = live.text();
        let sc = scan(&old);
        if !sc.errors.is_empty() {
            return fail("harness-scan", format!("step {}: the harness scanner does not understand the printed text {:?}: {:?}", i, old, sc.errors));
        }
        // index among non-empty paragraphs
        let mi = if model[pi].is_empty() { None } else { Some(model[..pi].iter().filter(|p| !p.is_empty()).count()) };
        let want_ret = apply_model(&mut model, op);
        let got_ret = if let Some(sp) = live.standalone.as_mut() {
            apply_live(sp, op)
        } else if case.old_handles.get(i).copied().unwrap_or(true) {
            apply_live(&mut live.handles[pi], op)
        } else {
            let mut h = live.fresh(pi).ok_or_else(|| Failure { assertion: "fresh-handle".into(), message: format!("step {}: paragraph {} not found in the live document", i, pi) })?;
            apply_live(&mut h, op)
        };
        ensure_eq!(got_ret, want_ret, "rename-result", "step {} ({:?}): return value", i, op);
        // (1) live content through the document and through handles obtained before the history
        ensure_eq!(live.live_model(), model, "live-model", "step {} ({:?}): live items() differ from the list model", i, op);
        for (hi, h) in live.handles.iter().enumerate() {
            ensure_eq!(h.items().collect::<Vec<_>>(), model[hi], "old-handle-sees-edit", "step {} ({:?}): handle obtained before the history, paragraph {}", i, op, hi);
        }
        // (2) frame
        let new = live.text();
        check_frame(&old, &new, &sc, op, mi, i)?;
        // (3) re-read
        match Deb822::from_str(&new) {
            Err(e) => return fail("reread-accepts", format!("step {} ({:?}): the printed document {:?} is rejected: {:?}", i, op, new, e.to_string())),
            Ok(d) => {
                let got: Model = d.paragraphs().map(|p| p.items().collect()).collect();
                ensure_eq!(got, nonempty(&model), "reread-content", "step {} ({:?}): re-reading the printed document {:?}", i, op, new);
            }
        }
    }
    Ok(())
}

const LAYOUTS: &[&str] = &[
    "A: 1\n",
    "A: 1",
    "A: 1\nB: 2\n\nA: 3\n",
    "A: 1\nA: 2\nB: 3\n\nB: x\n",
    "# top\nA: 1\n# mid\nB: 2\n# trail\n\n# gap\n\nA: 3\nB: 4\n# end\n",
    "A: 1\nB: 2\n c\n\nA:\n x\n y",
    "A:1\nB:\t2\n\n\n\nB: 3\n\n",
    "@builtdoc",
    "@builtpara",
    "A: 1\n\nB: 2",
    "B: 1\n# c\n\nA: 2\n",
    "A: 1\n  \tcont\nB: 2\n\n#c\nA: é\n",
];

fn enum_op(k: u64, nparas: usize) -> Op {
    // 28 operations over 2 paragraphs x names {A,B} x values {"v","w\nx"}
    let names = ["A", "B"];
    let values = ["v", "w\nx"];
    let (kind, r) = if k < 8 { (0, k) } else if k < 16 { (1, k - 8) } else if k < 20 { (2, k - 16) } else { (3, k - 20) };
    let p = (r & 1) as usize % nparas;
    let n = names[((r >> 1) & 1) as usize].to_string();
    match kind {
        0 => Op::Set(p, n, values[((r >> 2) & 1) as usize].to_string()),
        1 => Op::Insert(p, n, values[((r >> 2) & 1) as usize].to_string()),
        2 => Op::Remove(p, n),
        _ => Op::Rename(p, n, names[((r >> 2) & 1) as usize].to_string()),
    }
}

const HIST: u64 = 1 + 28 + 28 * 28 + 28 * 28 * 28;

pub fn start_of_layout(li: usize) -> (Start, usize) {
    match LAYOUTS[li] {
        "@builtdoc" => (Start::BuiltDoc(vec![vec![("A".into(), "1".into()), ("B".into(), "2\n3".into())], vec![("A".into(), "3".into())]]), 2),
        "@builtpara" => (Start::BuiltPara(vec![("A".into(), "1".into()), ("A".into(), "2".into())], 1), 1),
        text => (Start::Parsed(text.to_string()), scan(text).paras.len()),
    }
}

impl PropImpl for C04 {
    type Case = Case;
    fn id(&self) -> &'static str {
        "C04"
    }
    fn rule(&self) -> String {
        "cases are histories of 1-10 set/insert/remove/rename steps (names mostly drawn from those present so hits, duplicates and first/middle/last positions occur; values of 1-3 non-empty \
         lines) applied to a strictly parsed generated document, to Deb822::from_iter over built paragraphs, or to a stand-alone paragraph built by the three pair constructors, through handles \
         obtained before the history and through fresh ones; after every step: live items of every paragraph = Vec model, byte frame around the touched field, strict re-read = model. \
         (E) all histories of length <= 3 over 28 operations (2 paragraphs x names {A,B} x values {v, w\\nx}) on 12 fixed start layouts. Non-trivial: >= 2 model-changing steps on a document \
         with a comment, multi-line value, duplicate name or no final newline. Distinct by hash of (start, history).".into()
    }
    fn expected_labels(&self) -> Vec<&'static str> {
        vec!["op:set-existing", "op:set-append", "op:insert", "op:remove-one", "op:remove-duplicates", "op:remove-absent", "op:rename-existing", "op:rename-absent", "start:parsed", "start:built-document", "start:built-paragraph", "start:new-document-with-added-empty-paragraphs", "start:result-of-wrap-and-sort", "start:has-comment", "start:no-final-newline", "start:duplicate-name", "uses-fresh-handles", "paragraph-emptied", "op:name-equals-a-value-line-of-the-paragraph"]
    }
    fn budget(&self, tier: Tier) -> Budget {
        Budget { cases_per_lane: if tier == Tier::Quick { 30000 } else { 120000 }, tape_max: 900, cpu_s: 10 }
    }
    fn spaces(&self, _tier: Tier) -> Vec<Space> {
        vec![Space { name: "all histories of length <= 3 over 28 operations on 12 start layouts".into(), size: HIST * LAYOUTS.len() as u64, exhaustive: true }]
    }
    fn from_enum(&self, _ctx: &mut Ctx, _tier: Tier, _space: usize, index: u64) -> Case {
        let li = (index / HIST) as usize;
        let mut h = index % HIST;
        let (start, np) = start_of_layout(li);
        let len = if h < 1 { 0 } else if h < 29 { 1 } else if h < 29 + 784 { 2 } else { 3 };
        h -= [0, 1, 29, 29 + 784][len];
        let mut ops = vec![];
        for _ in 0..len {
            ops.push(enum_op(h % 28, np));
            h /= 28;
        }
        let old_handles = (0..len).map(|i| (index >> i) & 1 == 0).collect();
        Case { start, ops, old_handles }
    }
    fn decode(&self, _ctx: &mut Ctx, t: &mut Tape) -> Case {
        let kind = t.below(6);
        let (start, mut model): (Start, Model) = match kind {
            5 => {
                let k = t.range(1, 3);
                (Start::Added(k), vec![vec![]; k])
            }
            3 => {
                let mut paras = vec![];
                while t.more(paras.len(), 1, 3, 1, 2) {
                    let mut p = vec![];
                    while t.more(p.len(), 1, 4, 1, 2) {
                        p.push((doc::gen_name(t, true), gen_value(t)));
                    }
                    paras.push(p);
                }
                (Start::BuiltDoc(paras.clone()), paras)
            }
            4 => {
                let mut p = vec![];
                while t.more(p.len(), 1, 4, 1, 2) {
                    p.push((doc::gen_name(t, true), gen_value(t)));
                }
                let how = t.below(3) as u8;
                (Start::BuiltPara(p.clone(), how), vec![p])
            }
            _ => {
                let o = doc::DocOpts { min_paras: 1, max_paras: 3, max_fields: 4, max_lines: 3, ..Default::default() };
                let d: Doc = doc::gen_doc(t, &o);
                let m = d.model();
                if t.chance(1, 6) && !d.render().text.contains("\n#") && !d.render().text.starts_with('#') {
                    // (comment-free, so that the start model is simply the document's model)
                    (Start::Wrapped(d.render().text), m)
                } else {
                    (Start::Parsed(d.render().text), m)
                }
            }
        };
        let mut ops = vec![];
        let mut old_handles = vec![];
        while t.more(ops.len(), 1, 10, 3, 4) {
            let p = t.below(model.len());
            let present: Vec<String> = model[p].iter().map(|x| x.0.clone()).collect();
            let name = |t: &mut Tape| if !present.is_empty() && t.chance(3, 4) { t.pick(&present).clone() } else { doc::gen_name(t, true) };
            // a value line equal to a name in use: a lookup by name must not be misled by it
            let value = |t: &mut Tape| {
                let v = gen_value(t);
                if !present.is_empty() && t.chance(1, 6) {
                    let n = t.pick(&present).clone();
                    if n.starts_with('#') { v } else if t.flag() { n } else { format!("{}\n{}", v, n) }
                } else {
                    v
                }
            };
            let op = match t.below(4) {
                0 => Op::Set(p, name(t), value(t)),
                1 => Op::Insert(p, name(t), value(t)),
                2 => Op::Remove(p, name(t)),
                _ => Op::Rename(p, name(t), name(t)),
            };
            apply_model(&mut model, &op);
            ops.push(op);
            old_handles.push(!t.chance(1, 3));
        }
        Case { start, ops, old_handles }
    }
    fn classify(&self, ctx: &mut Ctx, case: &Case) {
        ctx.set_hash(&(format!("{:?}", case.start), format!("{:?}", case.ops), format!("{:?}", case.old_handles)));
        let (interesting, mut model) = match &case.start {
            Start::Parsed(t) => {
                ctx.label("start:parsed");
                let sc = scan(t);
                let m = sc.model();
                let dup = m.iter().any(|p| {
                    let mut n: Vec<&String> = p.iter().map(|x| &x.0).collect();
                    let l = n.len();
                    n.sort();
                    n.dedup();
                    n.len() != l
                });
                ctx.label_if(!sc.comments.is_empty(), "start:has-comment");
                ctx.label_if(!t.ends_with('\n'), "start:no-final-newline");
                ctx.label_if(dup, "start:duplicate-name");
                (!sc.comments.is_empty() || t.contains("\n ") || t.contains("\n\t") || dup || !t.ends_with('\n'), m)
            }
            Start::BuiltDoc(m) => {
                ctx.label("start:built-document");
                (m.iter().flatten().any(|x| x.1.contains('\n')), m.clone())
            }
            Start::BuiltPara(p, _) => {
                ctx.label("start:built-paragraph");
                (p.iter().any(|x| x.1.contains('\n')), vec![p.clone()])
            }
            Start::Wrapped(t) => {
                ctx.label("start:result-of-wrap-and-sort");
                (true, scan(t).model())
            }
            Start::Added(k) => {
                ctx.label("start:new-document-with-added-empty-paragraphs");
                (*k >= 2, vec![vec![]; *k])
            }
        };
        let mut changing = 0;
        for op in &case.ops {
            let before = model.clone();
            apply_model(&mut model, op);
            if model != before {
                changing += 1;
            }
            let (Op::Set(p, n, _) | Op::Remove(p, n) | Op::Rename(p, n, _) | Op::Insert(p, n, _)) = op;
            ctx.label_if(before[*p].iter().any(|x| x.1.lines().any(|l| l == n)), "op:name-equals-a-value-line-of-the-paragraph");
            match op {
                Op::Set(p, n, _) => ctx.label(if before[*p].iter().any(|x| &x.0 == n) { "op:set-existing" } else { "op:set-append" }),
                Op::Insert(..) => ctx.label("op:insert"),
                Op::Remove(p, n) => ctx.label(match before[*p].iter().filter(|x| &x.0 == n).count() {
                    0 => "op:remove-absent",
                    1 => "op:remove-one",
                    _ => "op:remove-duplicates",
                }),
                Op::Rename(p, o, _) => ctx.label(if before[*p].iter().any(|x| &x.0 == o) { "op:rename-existing" } else { "op:rename-absent" }),
            }
            ctx.label_if(model.iter().any(|p| p.is_empty()), "paragraph-emptied");
        }
        ctx.label_if(case.old_handles.iter().any(|x| !*x), "uses-fresh-handles");
        ctx.nontrivial = changing >= 2 && interesting;
    }
    fn check(&self, _ctx: &mut Ctx, case: &Case) -> CheckResult {
        run_history(case)
    }
    fn render(&self, case: &Case) -> String {
        format!("start {:?}\nhistory {:?}\nold_handles {:?}", case.start, case.ops, case.old_handles)
    }
}
