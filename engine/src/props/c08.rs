//! C08 Lossy deb822 values print to text that reads back equal; edits follow a list.
use crate::gen::doc;
use crate::tape::Tape;
use crate::{ensure, ensure_eq, fail, Budget, CheckResult, Ctx, PropImpl, Space, Tier};
use deb822_lossless::lossy::{self, Field, Paragraph};
use deb822_lossless::Deb822;
use std::str::FromStr;

pub struct C08;

#[derive(Debug, Clone)]
pub enum Op {
    Get(String),
    Set(String, String),
    Insert(String, String),
    Remove(String),
}

pub struct Case {
    pub paras: Vec<Vec<(String, String)>>,
    /// history applied to paragraph `target`
    pub target: usize,
    pub ops: Vec<Op>,
}

const SHAPES: &[&str] = &["", "a", "a\nb", "\nb", "a \n:b", "é#x\n-y\nz"];

fn gen_value(t: &mut Tape) -> String {
    // empty, or 1-4 non-empty lines without leading whitespace, optionally preceded by an empty first line
    let mut lines = vec![];
    let first = doc::gen_line(t, false, true, true);
    lines.push(first);
    while t.more(lines.len(), 1, 4, 1, 3) {
        lines.push(doc::gen_line(t, true, false, true));
    }
    lines.join("\n")
}

fn gen_para(t: &mut Tape) -> Vec<(String, String)> {
    let mut p = vec![];
    while t.more(p.len(), 1, 5, 3, 5) {
        p.push((doc::gen_name(t, true), gen_value(t)));
    }
    p
}

fn to_lossy(p: &[(String, String)]) -> Paragraph {
    Paragraph { fields: p.iter().map(|(n, v)| Field { name: n.clone(), value: v.clone() }).collect() }
}

fn nonblank(v: &str) -> Vec<String> {
    v.split('\n').filter(|l| !l.trim().is_empty()).map(|l| l.to_string()).collect()
}

pub fn check_roundtrip(paras: &[Vec<(String, String)>], aid: &str) -> CheckResult {
    let lp: Vec<Paragraph> = paras.iter().map(|p| to_lossy(p)).collect();
    let text = lp.iter().map(|p| p.to_string()).collect::<Vec<_>>().join("\n");
    let doc = match lossy::Deb822::from_str(&text) {
        Ok(d) => d,
        Err(e) => return fail(&format!("{}/lossy-reads-own-print", aid), format!("lossy reader rejects the printed text {:?}: {}", text, e)),
    };
    let got: Vec<Paragraph> = doc.iter().cloned().collect();
    ensure_eq!(got, lp, format!("{}/lossy-roundtrip", aid), "lossy::Deb822::from_str(printed) differs from the value printed (text {:?})", text);
    ensure_eq!(doc.len(), lp.len(), format!("{}/len", aid), "Deb822::len");
    ensure_eq!(doc.to_string(), text, format!("{}/document-print", aid), "the document prints differently from its paragraphs joined by one empty line");
    for p in &lp {
        let pt = p.to_string();
        match Paragraph::from_str(&pt) {
            Ok(q) => ensure_eq!(&q, p, format!("{}/paragraph-roundtrip", aid), "lossy::Paragraph::from_str(p.to_string()) != p (text {:?})", pt),
            Err(e) => return fail(&format!("{}/paragraph-roundtrip", aid), format!("lossy::Paragraph::from_str rejects {:?}: {}", pt, e)),
        }
    }
    match Deb822::from_str(&text) {
        Err(e) => return fail(&format!("{}/lossless-accepts", aid), format!("lossless reader rejects the printed text {:?}: {:?}", text, e.to_string())),
        Ok(d) => {
            let got: Vec<Vec<(String, Vec<String>)>> = d.paragraphs().map(|p| p.items().map(|(k, v)| (k, nonblank(&v))).collect()).collect();
            let want: Vec<Vec<(String, Vec<String>)>> = paras.iter().map(|p| p.iter().map(|(k, v)| (k.clone(), nonblank(v))).collect()).collect();
            ensure_eq!(got, want, format!("{}/lossless-content", aid), "lossless reader sees different names / non-blank lines in {:?}", text);
        }
    }
    Ok(())
}

impl PropImpl for C08 {
    type Case = Case;
    fn id(&self) -> &'static str {
        "C08"
    }
    fn rule(&self) -> String {
        "cases are lossy paragraph values built directly (1-4 paragraphs x 1-5 fields; valid names incl. odd printable ASCII; values empty or 1-4 non-empty lines without leading whitespace, \
         optional empty first line, trailing spaces, Unicode, ':' '#' '-' anywhere except '#' at the start of a continuation line) plus a history of 0-12 get/set/insert/remove steps on one \
         paragraph checked against a Vec model after every step; (E) all documents of 1-2 paragraphs of 1-2 fields over names {A,B} and 6 value shapes. Non-trivial: a multi-line or \
         empty-first-line value, or >= 2 model-changing steps touching a duplicated name. Distinct by hash of (paragraphs, history).".into()
    }
    fn expected_labels(&self) -> Vec<&'static str> {
        vec!["edit-on-duplicate-name", "empty-first-line", "empty-value", "has-history", "multi-line-value", "paragraphs>=2"]
    }
    fn budget(&self, tier: Tier) -> Budget {
        Budget { cases_per_lane: if tier == Tier::Quick { 60000 } else { 240000 }, tape_max: 600, cpu_s: 10 }
    }
    fn spaces(&self, _tier: Tier) -> Vec<Space> {
        vec![Space { name: "documents of 1-2 paragraphs x 1-2 fields over {A,B} x 6 value shapes".into(), size: 156 + 156 * 156, exhaustive: true }]
    }
    fn from_enum(&self, _ctx: &mut Ctx, _tier: Tier, _space: usize, index: u64) -> Case {
        let para = |mut i: u64| -> Vec<(String, String)> {
            let field = |j: u64| ((if j / 6 == 0 { "A" } else { "B" }).to_string(), SHAPES[(j % 6) as usize].to_string());
            if i < 12 {
                vec![field(i)]
            } else {
                i -= 12;
                vec![field(i / 12), field(i % 12)]
            }
        };
        let paras = if index < 156 { vec![para(index)] } else { vec![para((index - 156) / 156), para((index - 156) % 156)] };
        Case { paras, target: 0, ops: vec![] }
    }
    fn decode(&self, _ctx: &mut Ctx, t: &mut Tape) -> Case {
        let mut paras = vec![];
        while t.more(paras.len(), 1, 4, 2, 5) {
            paras.push(gen_para(t));
        }
        let target = t.below(paras.len());
        let mut ops = vec![];
        while t.more(ops.len(), 0, 12, 3, 4) {
            // names mostly from those present
            let present: Vec<String> = paras[target].iter().map(|x| x.0.clone()).collect();
            let name = if !present.is_empty() && t.chance(1, 8) {
                // a name related to one that is present: dpkg's user-defined prefixes in front of it, a suffix, or its stem
                let base = t.pick(&present).clone();
                match t.below(4) {
                    0 => format!("{}{}", *t.pick(&["X-", "XS-", "XB-", "XC-", "XBS-"]), base),
                    1 => format!("{}-List", base),
                    2 => base.trim_start_matches(|c: char| c == 'X' || c == 'S' || c == 'B' || c == 'C').trim_start_matches('-').to_string(),
                    _ => base.rsplit_once('-').map(|x| x.0.to_string()).unwrap_or(base),
                }
            } else if !present.is_empty() && t.chance(3, 4) {
                t.pick(&present).clone()
            } else {
                doc::gen_name(t, true)
            };
            let name = if name.is_empty() || name.starts_with('-') || name.starts_with('#') { "N".to_string() } else { name };
            ops.push(match t.below(4) {
                0 => Op::Set(name, gen_value(t)),
                1 => Op::Insert(name, gen_value(t)),
                2 => Op::Remove(name),
                _ => Op::Get(name),
            });
        }
        Case { paras, target, ops }
    }
    fn classify(&self, ctx: &mut Ctx, case: &Case) {
        ctx.set_hash(&(format!("{:?}", case.paras), format!("{:?}", case.ops), case.target));
        let multi = case.paras.iter().flatten().any(|(_, v)| v.contains('\n'));
        let efl = case.paras.iter().flatten().any(|(_, v)| v.starts_with('\n'));
        ctx.label_if(multi, "multi-line-value");
        ctx.label_if(efl, "empty-first-line");
        ctx.label_if(case.paras.iter().flatten().any(|(_, v)| v.is_empty()), "empty-value");
        ctx.label_if(case.paras.len() > 1, "paragraphs>=2");
        ctx.label_if(!case.ops.is_empty(), "has-history");
        let p = &case.paras[case.target];
        let dup = |n: &String| p.iter().filter(|x| &x.0 == n).count() >= 2;
        let changing_on_dup = case.ops.iter().filter(|o| match o {
            Op::Set(n, _) | Op::Insert(n, _) | Op::Remove(n) => dup(n),
            _ => false,
        }).count();
        ctx.label_if(changing_on_dup > 0, "edit-on-duplicate-name");
        ctx.nontrivial = multi || efl || changing_on_dup >= 2;
    }
    fn check(&self, _ctx: &mut Ctx, case: &Case) -> CheckResult {
        check_roundtrip(&case.paras, "initial")?;
        let mut model = case.paras[case.target].clone();
        let mut p = to_lossy(&model);
        for (i, op) in case.ops.iter().enumerate() {
            match op {
                Op::Get(n) => {
                    let want = model.iter().find(|x| &x.0 == n).map(|x| x.1.as_str());
                    ensure_eq!(p.get(n), want, "history/get-first", "step {}: get({:?})", i, n);
                }
                Op::Set(n, v) => {
                    p.set(n, v);
                    if let Some(x) = model.iter_mut().find(|x| &x.0 == n) {
                        x.1 = v.clone();
                    } else {
                        model.push((n.clone(), v.clone()));
                    }
                }
                Op::Insert(n, v) => {
                    p.insert(n, v);
                    model.push((n.clone(), v.clone()));
                }
                Op::Remove(n) => {
                    p.remove(n);
                    model.retain(|x| &x.0 != n);
                }
            }
            let got: Vec<(String, String)> = p.iter().map(|(k, v)| (k.to_string(), v.to_string())).collect();
            ensure_eq!(got, model, "history/model", "step {} ({:?}): paragraph differs from the list model", i, op);
            ensure_eq!(p.len(), model.len(), "history/len", "step {}: len()", i);
            ensure_eq!(p.is_empty(), model.is_empty(), "history/is-empty", "step {}: is_empty()", i);
            ensure!(p.fields.iter().map(|f| (f.name.clone(), f.value.clone())).collect::<Vec<_>>() == model, "history/fields", "step {}: fields differ from iter()", i);
        }
        if !case.ops.is_empty() && !model.is_empty() {
            let mut paras = case.paras.clone();
            paras[case.target] = model;
            check_roundtrip(&paras, "after-history")?;
        }
        Ok(())
    }
    fn render(&self, case: &Case) -> String {
        format!("paragraphs {:?}\nhistory on paragraph {}: {:?}", case.paras, case.target, case.ops)
    }
}
