//! C07 wrap-and-sort reformatting never changes content, keeps comments, is idempotent (deb822 level
//! and control-file wrappers).
use crate::gen::doc::{self, Doc, GapLine};
use crate::gen::scan::{scan, Scan};
use crate::tape::Tape;
use crate::{ensure, ensure_eq, fail, Budget, CheckResult, Ctx, Failure, PropImpl, Space, Tier};
use deb822_lossless::lossless::Entry;
use deb822_lossless::{Deb822, Indentation, Paragraph};
use std::cmp::Ordering;
use std::str::FromStr;

pub struct C07;

#[derive(Debug, Clone, Copy, PartialEq, Eq)]
pub enum ParaCmp {
    None,
    FirstValue,
    NameList,
}
#[derive(Debug, Clone, Copy, PartialEq, Eq)]
pub enum EntryCmp {
    None,
    Key,
    ValueKey,
    RevKey,
}
#[derive(Debug, Clone, Copy, PartialEq, Eq)]
pub enum Fmt {
    None,
    Identity,
    OnePerLine,
    Upper,
}
#[derive(Debug, Clone, Copy, PartialEq, Eq)]
pub enum Level {
    /// Deb822::wrap_and_sort with a paragraph function
    Doc,
    /// Deb822::wrap_and_sort without a paragraph function (only paragraph order / blank lines)
    DocOnly,
    /// Paragraph::wrap_and_sort on paragraph k (mod count)
    Para(usize),
    /// Entry::wrap_and_sort on Entry::new(name, value) of field k of paragraph 0
    EntryNew(usize),
}

#[derive(Debug, Clone, Copy)]
pub struct Settings {
    pub level: Level,
    pub indent: Indentation,
    pub immediate_empty_line: bool,
    pub one_liner: Option<usize>,
    pub pcmp: ParaCmp,
    pub ecmp: EntryCmp,
    pub fmt: Fmt,
}

pub struct Case {
    pub doc: Doc,
    pub s: Settings,
    /// Some: a control-file wrapper case (doc/s unused)
    pub control: Option<crate::props::c07c::ControlCase>,
    /// Some((paragraph, field)): before reformatting, that field is set to the value it already has through
    /// Paragraph::set - the document is then a live, edited object (rebuilt entry nodes), not a freshly parsed one
    pub pre_edit: Option<(usize, usize)>,
}

pub fn apply_fmt(f: Fmt, v: &str) -> String {
    match f {
        Fmt::None | Fmt::Identity => v.to_string(),
        Fmt::Upper => v.to_ascii_uppercase(),
        Fmt::OnePerLine => v.split(',').map(|x| x.trim_matches(|c| c == ' ' || c == '\t' || c == '\n')).filter(|x| !x.is_empty()).collect::<Vec<_>>().join(",\n"),
    }
}

/// "surrounding whitespace" is spaces and tabs (the lexer's notion), not Unicode white space
fn tw(l: &str) -> &str {
    l.trim_matches(|c| c == ' ' || c == '\t')
}
fn lines_of(v: &str) -> Vec<String> {
    v.split('\n').map(|l| tw(l).to_string()).filter(|l| !l.is_empty()).collect()
}

/// Comparators must depend only on field names and values, not on the order or layout being
/// rewritten (nor on what a formatter changes): values are compared with whitespace and commas removed and
/// ASCII case folded, paragraphs by order-independent keys.
fn vkey(v: &str) -> String {
    v.chars().filter(|c| !c.is_whitespace() && *c != ',').map(|c| c.to_ascii_lowercase()).collect()
}
fn pcmp_model(c: ParaCmp, a: &[(String, String)], b: &[(String, String)]) -> Ordering {
    match c {
        ParaCmp::None => Ordering::Equal,
        ParaCmp::FirstValue => a.iter().map(|x| vkey(&x.1)).min().cmp(&b.iter().map(|x| vkey(&x.1)).min()),
        ParaCmp::NameList => {
            let mut na: Vec<&String> = a.iter().map(|x| &x.0).collect();
            let mut nb: Vec<&String> = b.iter().map(|x| &x.0).collect();
            na.sort();
            nb.sort();
            na.cmp(&nb)
        }
    }
}
fn ecmp_model(c: EntryCmp, a: &(String, String), b: &(String, String)) -> Ordering {
    match c {
        EntryCmp::None => Ordering::Equal,
        EntryCmp::Key => a.0.cmp(&b.0),
        EntryCmp::ValueKey => (vkey(&a.1), &a.0).cmp(&(vkey(&b.1), &b.0)),
        EntryCmp::RevKey => b.0.cmp(&a.0),
    }
}

fn run_para(p: &Paragraph, s: &Settings) -> Paragraph {
    let ecmp = s.ecmp;
    let fmt = s.fmt;
    let sort = move |a: &Entry, b: &Entry| -> Ordering {
        let ka = (a.key().unwrap_or_default(), a.value());
        let kb = (b.key().unwrap_or_default(), b.value());
        ecmp_model(ecmp, &ka, &kb)
    };
    let format = move |_k: &str, v: &str| -> String { apply_fmt(fmt, v) };
    p.wrap_and_sort(
        s.indent,
        s.immediate_empty_line,
        s.one_liner,
        if ecmp == EntryCmp::None { None } else { Some(&sort) },
        if fmt == Fmt::None { None } else { Some(&format) },
    )
}

fn run_doc(d: &Deb822, s: &Settings) -> Deb822 {
    let pcmp = s.pcmp;
    let sortp = move |a: &Paragraph, b: &Paragraph| -> Ordering {
        let ia: Vec<(String, String)> = a.items().collect();
        let ib: Vec<(String, String)> = b.items().collect();
        pcmp_model(pcmp, &ia, &ib)
    };
    let s2 = *s;
    let wp = move |p: &Paragraph| -> Paragraph { run_para(p, &s2) };
    d.wrap_and_sort(if pcmp == ParaCmp::None { None } else { Some(&sortp) }, if s.level == Level::DocOnly { None } else { Some(&wp) })
}

/// identity of a field: (original paragraph, original field index)
type Id = (usize, usize);

struct Expected {
    /// per output paragraph: original paragraph index and the fields in expected order
    paras: Vec<(usize, Vec<(Id, String, Vec<String>)>)>,
}

fn expected(doc: &Doc, s: &Settings, only_para: Option<usize>) -> Expected {
    let mut paras: Vec<(usize, Vec<(Id, String, Vec<String>)>)> = vec![];
    let mut order: Vec<usize> = (0..doc.paras.len()).collect();
    if let Some(k) = only_para {
        order = vec![k];
    } else {
        let items: Vec<Vec<(String, String)>> = doc.paras.iter().map(|p| p.items()).collect();
        order.sort_by(|a, b| pcmp_model(s.pcmp, &items[*a], &items[*b]));
    }
    for pi in order {
        let p = &doc.paras[pi];
        let mut idx: Vec<usize> = (0..p.fields.len()).collect();
        let items = p.items();
        if s.level != Level::DocOnly {
            idx.sort_by(|a, b| ecmp_model(s.ecmp, &items[*a], &items[*b]));
        }
        let fields = idx
            .into_iter()
            .map(|fi| {
                let v = if s.level == Level::DocOnly { items[fi].1.clone() } else { apply_fmt(s.fmt, &items[fi].1) };
                ((pi, fi), items[fi].0.clone(), lines_of(&v))
            })
            .collect();
        paras.push((pi, fields));
    }
    Expected { paras }
}

fn comment_texts(g: &[GapLine]) -> Vec<String> {
    g.iter().filter_map(|x| if let GapLine::Comment(c) = x { Some(c.clone()) } else { None }).collect()
}

/// Check one reformatted text against the expectations (a)-(f); returns the scan for reuse.
fn check_output(doc: &Doc, s: &Settings, only_para: Option<usize>, out: &str, live: &[Vec<(String, String)>]) -> Result<Scan, Failure> {
    // (a) strict parse
    let re = match Deb822::from_str(out) {
        Ok(d) => d,
        Err(e) => return fail("result-parses", format!("the reformatted text {:?} is rejected by the strict reader: {:?}", out, e.to_string())),
    };
    // (b) re-read content == what the returned object reports
    let reread: Vec<Vec<(String, String)>> = re.paragraphs().map(|p| p.items().collect()).collect();
    let live_ne: Vec<Vec<(String, String)>> = live.iter().filter(|p| !p.is_empty()).cloned().collect();
    ensure_eq!(reread, live_ne, "reread-equals-live", "re-reading {:?} gives different content than the returned object reports", out);
    let sc = scan(out);
    if !sc.errors.is_empty() {
        return fail("result-well-formed", format!("the reformatted text {:?} has malformed lines: {:?}", out, sc.errors));
    }
    // (c) content and order
    let ex = expected(doc, s, only_para);
    ensure_eq!(sc.paras.len(), ex.paras.len(), "paragraph-count", "number of paragraphs in {:?}", out);
    let mut stable = true;
    for (k, (sp, (pi, ef))) in sc.paras.iter().zip(ex.paras.iter()).enumerate() {
        let got: Vec<(String, Vec<String>)> = sp.fields.iter().map(|f| (f.name.clone(), f.raw_lines.iter().map(|l| tw(l).to_string()).filter(|l| !l.is_empty()).collect())).collect();
        let want: Vec<(String, Vec<String>)> = ef.iter().map(|x| (x.1.clone(), x.2.clone())).collect();
        if got != want {
            // any order consistent with the comparator is "the requested order": accept a sorted permutation
            let mut g2 = got.clone();
            let mut w2 = want.clone();
            g2.sort();
            w2.sort();
            ensure_eq!(g2, w2, "content", "fields of output paragraph {} (original {}) in {:?}", k, pi, out);
            let as_pair = |x: &(String, Vec<String>)| (x.0.clone(), x.1.join("\n"));
            let sorted_ok = got.windows(2).all(|w| ecmp_model(s.ecmp, &as_pair(&w[0]), &as_pair(&w[1])) != Ordering::Greater);
            ensure!(s.ecmp != EntryCmp::None && s.fmt == Fmt::None && sorted_ok, "field-order", "fields of output paragraph {} are not in the requested order: got {:?}, expected {:?}", k, got, want);
            stable = false;
        }
    }
    // (d) comments: all present, each on its own line, same anchor
    let mut in_comments: Vec<String> = vec![];
    if only_para.is_none() {
        in_comments.extend(comment_texts(&doc.leading));
    }
    for (pi, p) in doc.paras.iter().enumerate() {
        if only_para.map(|k| k != pi).unwrap_or(false) {
            continue;
        }
        if pi > 0 && only_para.is_none() {
            in_comments.extend(comment_texts(&doc.gaps[pi - 1]));
        }
        for (fi, f) in p.fields.iter().enumerate() {
            // comment lines in front of a paragraph's first field belong to the document, not to the
            // Paragraph object: a paragraph-level call neither sees nor returns them
            if only_para.is_some() && fi == 0 {
                continue;
            }
            in_comments.extend(f.comments_before.iter().cloned());
        }
        in_comments.extend(p.trailing_comments.iter().cloned());
    }
    if only_para.is_none() {
        in_comments.extend(comment_texts(&doc.trailing));
    }
    let mut out_comments: Vec<String> = sc.comments.iter().map(|c| c.1.clone()).collect();
    let mut a = in_comments.clone();
    a.sort();
    out_comments.sort();
    ensure_eq!(out_comments, a, "comments-kept", "comment lines of {:?} (each comment must stay on a line of its own)", out);
    if stable {
        check_anchors(doc, s, only_para, out, &sc, &ex)?;
    }
    // (e) indentation of continuation lines
    if s.level != Level::DocOnly {
        for sp in &sc.paras {
            for f in &sp.fields {
                let n = match s.indent {
                    Indentation::Spaces(n) => n as usize,
                    Indentation::FieldNameLength => f.name.len(),
                };
                for ind in &f.indents {
                    ensure!(*ind == " ".repeat(n), "indentation", "continuation line of {:?} is indented by {:?}, expected {} spaces, in {:?}", f.name, ind, n, out);
                }
            }
        }
    }
    // (f) exactly one empty line between consecutive paragraphs
    for w in sc.paras.windows(2) {
        let between = &out[w[0].end..w[1].start];
        let blanks = between.split_inclusive('\n').filter(|l| *l == "\n").count();
        ensure!(blanks == 1, "paragraph-separation", "paragraphs are separated by {} empty lines (text between them {:?}) in {:?}", blanks, between, out);
    }
    Ok(sc)
}

fn check_anchors(doc: &Doc, s: &Settings, only_para: Option<usize>, out: &str, sc: &Scan, ex: &Expected) -> CheckResult {
    // identities of output fields in document order with their offsets
    let mut fields: Vec<(usize, Id)> = vec![];
    for (sp, (_, ef)) in sc.paras.iter().zip(ex.paras.iter()) {
        for (f, e) in sp.fields.iter().zip(ef.iter()) {
            fields.push((f.start, e.0));
        }
    }
    let next_field = |off: usize| fields.iter().find(|f| f.0 > off).map(|f| f.1);
    let prev_field_same_block = |off: usize| -> Option<Id> {
        // closest preceding field with no empty line in between
        let f = fields.iter().rev().find(|f| f.0 < off)?;
        if out[f.0..off].contains("\n\n") {
            None
        } else {
            Some(f.1)
        }
    };
    let first_sorted = |pi: usize| ex.paras.iter().find(|p| p.0 == pi).and_then(|p| p.1.first()).map(|f| f.0);
    let last_sorted = |pi: usize| ex.paras.iter().find(|p| p.0 == pi).and_then(|p| p.1.last()).map(|f| f.0);
    let next_para_in_output = |pi: usize| {
        let k = ex.paras.iter().position(|p| p.0 == pi)?;
        ex.paras.get(k + 1).and_then(|p| p.1.first()).map(|f| f.0)
    };
    // walk the input comments in order and find each one's occurrence in the output (k-th occurrence of that text)
    let mut seen: std::collections::HashMap<String, usize> = Default::default();
    let mut locate = |text: &str| -> Option<usize> {
        let k = seen.entry(text.to_string()).or_insert(0);
        let r = sc.comments.iter().filter(|c| c.1 == text).nth(*k).map(|c| c.0);
        *k += 1;
        r
    };
    // comments with identical text are interchangeable: only check anchors for texts that are unique in the input
    let mut counts: std::collections::HashMap<String, usize> = Default::default();
    let mut all: Vec<(String, Vec<Option<Id>>, bool)> = vec![]; // text, acceptable next-field anchors, or "end of paragraph" alternative
    let push = |text: &String, next_ok: Vec<Option<Id>>, all: &mut Vec<(String, Vec<Option<Id>>, bool)>| {
        all.push((text.clone(), next_ok, false));
    };
    let paras: Vec<usize> = match only_para {
        Some(k) => vec![k],
        None => (0..doc.paras.len()).collect(),
    };
    if only_para.is_none() {
        for c in comment_texts(&doc.leading) {
            let a = if doc.paras.is_empty() { None } else { first_sorted(0) };
            push(&c, vec![a], &mut all);
        }
    }
    let mut trailing_info: Vec<(String, usize)> = vec![];
    for &pi in &paras {
        let p = &doc.paras[pi];
        if pi > 0 && only_para.is_none() {
            for c in comment_texts(&doc.gaps[pi - 1]) {
                push(&c, vec![first_sorted(pi)], &mut all);
            }
        }
        for (fi, f) in p.fields.iter().enumerate() {
            for c in &f.comments_before {
                if fi == 0 && only_para.is_some() {
                    continue;
                }
                if fi == 0 {
                    push(c, vec![Some((pi, 0)), first_sorted(pi)], &mut all);
                } else {
                    push(c, vec![Some((pi, fi))], &mut all);
                }
            }
        }
        for c in &p.trailing_comments {
            trailing_info.push((c.clone(), pi));
            all.push((c.clone(), vec![], true));
        }
    }
    if only_para.is_none() {
        for c in comment_texts(&doc.trailing) {
            push(&c, vec![None], &mut all);
        }
    }
    for (text, _, _) in &all {
        *counts.entry(text.clone()).or_insert(0) += 1;
    }
    let mut ti = 0;
    for (text, next_ok, is_trailing) in &all {
        let off = locate(text);
        if counts[text] != 1 {
            if *is_trailing {
                ti += 1;
            }
            continue;
        }
        let Some(off) = off else { continue };
        if *is_trailing {
            let pi = trailing_info[ti].1;
            ti += 1;
            // end of the same paragraph, or in front of the paragraph that follows it in the output
            let at_end = prev_field_same_block(off) == last_sorted(pi) && next_field(off).map(|n| n.0 != pi).unwrap_or(true);
            let front_of_next = next_field(off) == next_para_in_output(pi) && only_para.is_none();
            // without paragraph sorting the original successor is also "the paragraph it was in front of"
            let orig_next = if pi + 1 < doc.paras.len() { first_sorted(pi + 1) } else { None };
            ensure!(at_end || front_of_next || (only_para.is_none() && next_field(off) == orig_next), "comment-anchor", "comment {:?} that followed the last field of paragraph {} moved elsewhere in {:?}", text, pi, out);
        } else {
            let n = next_field(off);
            ensure!(next_ok.contains(&n), "comment-anchor", "comment {:?} is now in front of field {:?}, expected one of {:?} (ids are (original paragraph, original field)) in {:?}", text, n, next_ok, out);
        }
    }
    let _ = s;
    Ok(())
}

/// Known finding: a value line starting with '#' that the reformatting puts on a continuation line is
/// read back as a comment by both readers (content silently lost).
pub const KF_HASH_LINE: &str = "KF-C07-hash-line";

/// Trigger predicate of KF_HASH_LINE for one field value under the given settings.
pub fn hash_line_trigger(value: &str, s: &Settings) -> bool {
    if s.level == Level::DocOnly {
        return false;
    }
    let formatted = apply_fmt(s.fmt, value);
    let lines: Vec<&str> = formatted.split('\n').map(|l| tw(l)).filter(|l| !l.is_empty()).collect();
    // a later line starting with '#' (only formatters can create one), or the first line being moved
    // below the field name because the value is multi-line and immediate_empty_line is set
    lines.iter().skip(1).any(|l| l.starts_with('#')) || (lines.len() > 1 && lines[0].starts_with('#') && s.immediate_empty_line)
}

pub fn check_case(case: &Case) -> CheckResult {
    let doc = &case.doc;
    let s = &case.s;
    let text = doc.render().text;
    let d = match Deb822::from_str(&text) {
        Ok(d) => d,
        Err(e) => return fail("start-parses", format!("well-formed start document rejected: {:?}", e.to_string())),
    };
    let text = match case.pre_edit {
        Some((pk, fk)) => {
            let f = &doc.paras[pk].fields[fk];
            let mut h = d.paragraphs().nth(pk).ok_or_else(|| Failure { assertion: "infra/pre-edit".into(), message: "paragraph not found".into() })?;
            h.set(&f.name, &f.value());
            d.to_string()
        }
        None => text,
    };
    match s.level {
        Level::Doc | Level::DocOnly => {
            let r = run_doc(&d, s);
            let out = r.to_string();
            let live: Vec<Vec<(String, String)>> = r.paragraphs().map(|p| p.items().collect()).collect();
            check_output(doc, s, None, &out, &live)?;
            // (g) idempotence: on the live result and on its re-read
            let again = run_doc(&r, s).to_string();
            ensure_eq!(again, out, "idempotent-live", "a second pass over the returned object changes the text");
            let reread = Deb822::from_str(&out).map_err(|e| Failure { assertion: "result-parses".into(), message: e.to_string() })?;
            let again2 = run_doc(&reread, s).to_string();
            ensure_eq!(again2, out, "idempotent-reread", "a second pass over the re-read result changes the text");
            // the input object is unchanged
            ensure_eq!(d.to_string(), text, "input-untouched", "wrap_and_sort modified its input");
        }
        Level::Para(k) => {
            let n = d.paragraphs().count();
            if n == 0 {
                return Ok(());
            }
            let k = k % n;
            let p = d.paragraphs().nth(k).unwrap();
            let r = run_para(&p, s);
            let out = r.to_string();
            let live = vec![r.items().collect::<Vec<_>>()];
            check_output(doc, s, Some(k), &out, &live)?;
            let again = run_para(&r, s).to_string();
            ensure_eq!(again, out, "idempotent-live", "a second pass over the returned paragraph changes the text");
            // Paragraph::from_str returns the paragraph node only: comment lines in front of its first
            // field belong to the document, so the re-read comparison is only meaningful without them
            if let Some(rp) = Paragraph::from_str(&out).ok().filter(|_| !out.starts_with('#')) {
                let again2 = run_para(&rp, s).to_string();
                ensure_eq!(again2, out, "idempotent-reread", "a second pass over the re-read paragraph changes the text");
            }
            ensure_eq!(d.to_string(), text, "input-untouched", "wrap_and_sort modified its input");
        }
        Level::EntryNew(k) => {
            let Some(p0) = doc.paras.first() else { return Ok(()) };
            let f = &p0.fields[k % p0.fields.len()];
            let value = f.value();
            if value.is_empty() || value.split('\n').any(|l| l.is_empty() || l.starts_with('#') || l.starts_with(' ') || l.starts_with('\t')) {
                return Ok(());
            }
            let e = Entry::new(&f.name, &value);
            let fmt = s.fmt;
            let format = move |_k: &str, v: &str| -> String { apply_fmt(fmt, v) };
            let go = |e: &Entry| e.wrap_and_sort(s.indent, s.immediate_empty_line, s.one_liner, if fmt == Fmt::None { None } else { Some(&format) });
            let r = go(&e);
            let out = r.to_string();
            let sc = scan(&out);
            ensure!(sc.errors.is_empty() && sc.paras.len() == 1 && sc.paras[0].fields.len() == 1, "entry-result-well-formed", "Entry::wrap_and_sort printed {:?}", out);
            let sf = &sc.paras[0].fields[0];
            ensure_eq!(sf.name, f.name, "entry-name", "field name");
            let got: Vec<String> = sf.raw_lines.iter().map(|l| tw(l).to_string()).filter(|l| !l.is_empty()).collect();
            ensure_eq!(got, lines_of(&apply_fmt(fmt, &value)), "entry-content", "value lines of {:?}", out);
            ensure_eq!(r.value().split('\n').map(|l| tw(l).to_string()).filter(|l| !l.is_empty()).collect::<Vec<_>>(), got, "entry-live-value", "live value() of the returned entry vs its text {:?}", out);
            let n = match s.indent {
                Indentation::Spaces(n) => n as usize,
                Indentation::FieldNameLength => f.name.len(),
            };
            for ind in &sf.indents {
                ensure!(*ind == " ".repeat(n), "indentation", "continuation line indented by {:?}, expected {} spaces in {:?}", ind, n, out);
            }
            ensure_eq!(go(&r).to_string(), out, "idempotent-live", "a second pass over the returned entry changes the text");
        }
    }
    Ok(())
}

pub fn gen_settings(t: &mut Tape) -> Settings {
    let level = match t.below(8) {
        0..=3 => Level::Doc,
        4 => Level::DocOnly,
        5 | 6 => Level::Para(t.below(4)),
        _ => Level::EntryNew(t.below(4)),
    };
    // widths: usually 1-8, now and then far beyond what anybody formats with (fixed tables / buffers)
    let indent = if t.chance(1, 4) { Indentation::FieldNameLength } else if t.chance(1, 12) { Indentation::Spaces(*t.pick(&[9u32, 16, 63, 64, 65, 100, 255, 256, 1000])) } else { Indentation::Spaces(t.range(1, 8) as u32) };
    Settings {
        level,
        indent,
        immediate_empty_line: t.flag(),
        one_liner: *t.pick(&[None, Some(8), Some(20), Some(79), Some(10000)]),
        pcmp: *t.pick(&[ParaCmp::None, ParaCmp::FirstValue, ParaCmp::NameList]),
        ecmp: *t.pick(&[EntryCmp::None, EntryCmp::Key, EntryCmp::ValueKey, EntryCmp::RevKey]),
        fmt: *t.pick(&[Fmt::None, Fmt::Identity, Fmt::OnePerLine, Fmt::Upper]),
    }
}

const GRID_LAYOUTS: &[&str] = &[
    "A: 1\n",
    "B: 2\nA: 1\n\nC: x,\n y, z\nB:\n w\n",
    "# top\nB: b1, b2\n# mid\nA: a\n# trail\n\n# gap\n\nA: 0\n# e\n",
    "S: x\n\n\n\nP: b\nD: s\n l1\n l2\n\nP: a\nD:\n  t\n\t u",
    "Long-Field-Name: aaaaaaaaaaaaaaaaaaaa bbbbbbbbbbbbbbbbbbbbbbb cccccccccccccccc\nU: a <a@b>,\n   b <b@c>\n",
];

fn grid_settings(mut i: u64) -> Settings {
    let mut take = |n: u64| {
        let r = i % n;
        i /= n;
        r as usize
    };
    let indent = [Indentation::FieldNameLength, Indentation::Spaces(1), Indentation::Spaces(2), Indentation::Spaces(4), Indentation::Spaces(8)][take(5)];
    let iel = take(2) == 1;
    let one_liner = [None, Some(8), Some(20), Some(79), Some(10000)][take(5)];
    let pcmp = [ParaCmp::None, ParaCmp::FirstValue, ParaCmp::NameList][take(3)];
    let ecmp = [EntryCmp::None, EntryCmp::Key, EntryCmp::ValueKey, EntryCmp::RevKey][take(4)];
    let fmt = [Fmt::None, Fmt::Identity, Fmt::OnePerLine, Fmt::Upper][take(4)];
    let level = [Level::Doc, Level::Para(0), Level::Para(1)][take(3)];
    Settings { level, indent, immediate_empty_line: iel, one_liner, pcmp, ecmp, fmt }
}
const GRID: u64 = 5 * 2 * 5 * 3 * 4 * 4 * 3;

/// Turn a well-formed LF text into a Doc model (comments attached by position).
pub fn doc_of_text(text: &str) -> Doc {
    let mut d = Doc { final_newline: text.ends_with('\n') || text.is_empty(), ..Default::default() };
    let mut pending: Vec<GapLine> = vec![];
    let mut cur: Option<doc::Para> = None;
    let comments = |p: &mut Vec<GapLine>| -> Vec<String> { p.drain(..).filter_map(|g| if let GapLine::Comment(c) = g { Some(c) } else { None }).collect() };
    for raw in text.split_inclusive('\n') {
        let line = raw.strip_suffix('\n').unwrap_or(raw);
        if line.is_empty() {
            if let Some(mut p) = cur.take() {
                p.trailing_comments = comments(&mut pending);
                d.paras.push(p);
            }
            pending.push(GapLine::Empty);
        } else if line.starts_with('#') {
            pending.push(GapLine::Comment(line.to_string()));
        } else if line.starts_with(' ') || line.starts_with('\t') {
            let stripped = line.trim_start_matches(|c| c == ' ' || c == '\t');
            let f = cur.as_mut().expect("continuation of nothing").fields.last_mut().unwrap();
            f.indents.push(line[..line.len() - stripped.len()].to_string());
            f.lines.push(stripped.to_string());
        } else {
            let (name, rest) = line.split_once(':').expect("field line without colon");
            let v = rest.trim_start_matches(|c| c == ' ' || c == '\t');
            let mut f = doc::Field { name: name.to_string(), lines: vec![v.to_string()], colon_ws: rest[..rest.len() - v.len()].to_string(), indents: vec![], comments_before: vec![] };
            match cur.as_mut() {
                None => {
                    let g = std::mem::take(&mut pending);
                    if d.paras.is_empty() {
                        d.leading = g;
                    } else {
                        d.gaps.push(g);
                    }
                    cur = Some(doc::Para { fields: vec![f], trailing_comments: vec![] });
                }
                Some(p) => {
                    f.comments_before = comments(&mut pending);
                    p.fields.push(f);
                }
            }
        }
    }
    if let Some(mut p) = cur.take() {
        p.trailing_comments = comments(&mut pending);
        d.paras.push(p);
    }
    if d.paras.is_empty() {
        d.leading = pending;
    } else {
        d.trailing = pending;
    }
    d
}

impl PropImpl for C07 {
    type Case = Case;
    fn id(&self) -> &'static str {
        "C07"
    }
    fn rule(&self) -> String {
        "cases are (error-free generated document, settings): settings = level (Deb822 with/without paragraph function, Paragraph k, Entry::new) x Indentation (Spaces(1..8) | FieldNameLength) x \
         immediate_empty_line x one-liner limit {None,8,20,79,10000} x paragraph comparator {none, smallest normalised value, sorted name list} x entry comparator {none, key, (normalised value,key), reverse key} (all independent of order, layout and of what the formatters change) x formatter \
         {none, identity, one item per line, ASCII upper-case}; (E) the full 7200-setting grid on 5 fixed layouts. Oracle (a)-(g) of DESIGN.md §4 C07. Non-trivial: the document has a comment, a \
         multi-line value or >= 2 paragraphs and at least one non-default setting. Distinct by hash of (text, settings).".into()
    }
    fn expected_labels(&self) -> Vec<&'static str> {
        vec!["level:document", "level:document-without-paragraph-function", "level:paragraph", "level:entry", "level:Control", "level:control-Source", "level:control-Binary", "indent:field-name-length", "indent:1", "indent:more-than-64", "immediate-empty-line:true", "one-liner:small", "one-liner:large", "pcmp:first-value", "pcmp:name-list", "ecmp:key", "ecmp:value-key", "ecmp:reverse-key", "fmt:identity", "fmt:one-per-line", "fmt:upper", "comment:between-fields", "comment:after-last-field", "comment:top", "comment:end", "whitespace-only-continuation-line", "control:substvar-in-relation-field", "control:uploaders", "control:paragraph-of-neither-kind", "start:edited-live-document"]
    }
    fn budget(&self, tier: Tier) -> Budget {
        Budget { cases_per_lane: if tier == Tier::Quick { 30000 } else { 120000 }, tape_max: 700, cpu_s: 10 }
    }
    fn spaces(&self, _tier: Tier) -> Vec<Space> {
        vec![Space { name: "settings grid (5x2x5x3x4x4x3) x 5 layouts".into(), size: GRID * GRID_LAYOUTS.len() as u64, exhaustive: true }]
    }
    fn from_enum(&self, _ctx: &mut Ctx, _tier: Tier, _space: usize, index: u64) -> Case {
        let li = (index / GRID) as usize;
        Case { doc: doc_of_text(GRID_LAYOUTS[li]), s: grid_settings(index % GRID), control: None, pre_edit: None }
    }
    fn decode(&self, ctx: &mut Ctx, t: &mut Tape) -> Case {
        if t.chance(1, 4) {
            let c = crate::props::c07c::gen_control(ctx, t);
            return Case { doc: Doc::default(), s: grid_settings(0), control: Some(c), pre_edit: None };
        }
        let s = gen_settings(t);
        let o = doc::DocOpts { max_paras: 3, max_fields: 4, max_lines: 3, min_paras: if matches!(s.level, Level::Doc | Level::DocOnly) { 0 } else { 1 }, ..Default::default() };
        let mut doc = doc::gen_doc(t, &o);
        // error-free documents may contain whitespace-only continuation lines (the strict reader accepts them)
        if t.chance(1, 4) {
            for p in doc.paras.iter_mut() {
                for f in p.fields.iter_mut() {
                    if f.lines.len() >= 2 && t.chance(1, 2) {
                        let at = t.range(1, f.lines.len());
                        f.lines.insert(at, String::new());
                        f.indents.insert(at - 1, if t.flag() { " ".into() } else { " \t ".into() });
                    }
                }
            }
        }
        if ctx.avoid(KF_HASH_LINE) {
            // exclude the trigger of the listed finding by construction: no value line may end up
            // as a continuation line starting with '#'
            for p in doc.paras.iter_mut() {
                for f in p.fields.iter_mut() {
                    if hash_line_trigger(&f.value(), &s) {
                        for l in f.lines.iter_mut() {
                            *l = l.replace('#', "h");
                        }
                        ctx.excluded_known += 1;
                    }
                }
            }
        }
        // now and then the document is edited (content unchanged) before it is reformatted
        let mut pre_edit = None;
        if t.chance(1, 6) && !doc.paras.is_empty() {
            let pk = t.below(doc.paras.len());
            if !doc.paras[pk].fields.is_empty() {
                let fk = t.below(doc.paras[pk].fields.len());
                let f = &doc.paras[pk].fields[fk];
                let first_of_name = doc.paras[pk].fields.iter().position(|g| g.name == f.name) == Some(fk);
                let plain = f.lines.iter().enumerate().all(|(i, l)| (i == 0 || !l.is_empty()) && !l.starts_with([' ', '\t']) && !l.ends_with([' ', '\t'])) && !f.lines[0].is_empty();
                if first_of_name && plain {
                    pre_edit = Some((pk, fk));
                }
            }
        }
        Case { doc, s, control: None, pre_edit }
    }
    fn finding_of(&self, case: &Case, f: &Failure) -> Option<&'static str> {
        if case.control.is_some() {
            return None;
        }
        let relevant = ["reread-equals-live", "content", "comments-kept", "idempotent-live", "idempotent-reread", "entry-content", "entry-live-value", "field-order"];
        if relevant.contains(&f.assertion.as_str()) && case.doc.paras.iter().flat_map(|p| p.fields.iter()).any(|fl| hash_line_trigger(&fl.value(), &case.s)) {
            return Some(KF_HASH_LINE);
        }
        None
    }
    fn classify(&self, ctx: &mut Ctx, case: &Case) {
        if let Some(c) = &case.control {
            ctx.set_hash(&(c.doc.render().text, format!("{:?}{:?}{}{:?}", c.level, c.indent, c.immediate_empty_line, c.one_liner)));
            crate::props::c07c::labels(ctx, c);
            return;
        }
        let text = case.doc.render().text;
        ctx.set_hash(&(text, format!("{:?}", case.s)));
        let s = &case.s;
        ctx.label(match s.level {
            Level::Doc => "level:document",
            Level::DocOnly => "level:document-without-paragraph-function",
            Level::Para(_) => "level:paragraph",
            Level::EntryNew(_) => "level:entry",
        });
        ctx.label(match s.indent {
            Indentation::FieldNameLength => "indent:field-name-length",
            Indentation::Spaces(1) => "indent:1",
            Indentation::Spaces(n) if n <= 4 => "indent:2-4",
            Indentation::Spaces(n) if n > 64 => "indent:more-than-64",
            _ => "indent:5-8",
        });
        ctx.label(if s.immediate_empty_line { "immediate-empty-line:true" } else { "immediate-empty-line:false" });
        ctx.label(match s.one_liner {
            None => "one-liner:none",
            Some(n) if n <= 20 => "one-liner:small",
            Some(79) => "one-liner:79",
            _ => "one-liner:large",
        });
        ctx.label(match s.pcmp {
            ParaCmp::None => "pcmp:none",
            ParaCmp::FirstValue => "pcmp:first-value",
            ParaCmp::NameList => "pcmp:name-list",
        });
        ctx.label(match s.ecmp {
            EntryCmp::None => "ecmp:none",
            EntryCmp::Key => "ecmp:key",
            EntryCmp::ValueKey => "ecmp:value-key",
            EntryCmp::RevKey => "ecmp:reverse-key",
        });
        ctx.label(match s.fmt {
            Fmt::None => "fmt:none",
            Fmt::Identity => "fmt:identity",
            Fmt::OnePerLine => "fmt:one-per-line",
            Fmt::Upper => "fmt:upper",
        });
        crate::props::c03::doc_labels(ctx, &case.doc);
        ctx.label_if(case.pre_edit.is_some(), "start:edited-live-document");
        let d = &case.doc;
        let non_default = s.pcmp != ParaCmp::None || s.ecmp != EntryCmp::None || s.fmt != Fmt::None || s.immediate_empty_line || s.one_liner.is_some() || s.indent != Indentation::Spaces(4);
        ctx.nontrivial = (d.has_comment() || d.has_multiline() || d.paras.len() >= 2) && non_default;
    }
    fn check(&self, _ctx: &mut Ctx, case: &Case) -> CheckResult {
        if let Some(c) = &case.control {
            return crate::props::c07c::check(c);
        }
        check_case(case)
    }
    fn render(&self, case: &Case) -> String {
        if let Some(c) = &case.control {
            return crate::props::c07c::render(c);
        }
        format!("document {:?}\nsettings {:?}", case.doc.render().text, case.s)
    }
}
