//! C01 Lossless deb822 reader reproduces every input byte-for-byte.
use crate::gen::{doc, text};
use crate::tape::Tape;
use crate::{ensure, ensure_eq, Budget, CheckResult, Ctx, PropImpl, Space, Tier};
use deb822_lossless::Deb822;
use std::str::FromStr;

pub struct C01;

pub struct Case {
    pub text: String,
    pub origin: &'static str,
}

/// class representatives: key char, second key char, '-', ':', '#', space, tab, LF, CR, 2/3/4-byte
/// characters, a C0 control, DEL
pub const ALPHABET: &[&str] = &["A", "b", "-", ":", "#", " ", "\t", "\n", "\r", "é", "€", "𝄞", "\u{1}", "\u{7f}"];

pub const WEIGHTED: &[(u32, &str)] = &[
    (20, "A"), (10, "b"), (4, "1"), (6, "-"), (12, ":"), (6, "#"), (12, " "), (4, "\t"), (16, "\n"), (4, "\r"), (3, "é"), (2, "€"), (2, "𝄞"),
    (2, "\u{1}"), (1, "\u{7f}"), (1, "\u{a0}"), (1, "\u{2028}"), (1, "\u{85}"), (1, "\u{0}"), (1, "\u{b}"), (1, "\u{c}"), (1, "~"), (1, "!"), (1, "/"), (1, "\u{feff}"), (1, "\u{200b}"),
];

/// characters that software likes to treat specially at the very start / end of a text
pub const EDGE_CHARS: &[&str] = &["\u{feff}", "\u{0}", "\u{200b}", "\u{2029}", "\u{1a}", "\u{fffd}", "\r", "\n", " ", "\t", "#", "-", ":"];

/// whole lines that tools recognise by their exact text (armor lines, format markers, merge markers, document separators)
pub const MAGIC_LINES: &[&str] = &[
    "-----BEGIN PGP SIGNED MESSAGE-----", "-----BEGIN PGP SIGNATURE-----", "-----END PGP SIGNATURE-----", "-----BEGIN PGP MESSAGE-----", "Hash: SHA512",
    "Format: https://www.debian.org/doc/packaging-manuals/copyright-format/1.0/", "#!/usr/bin/make -f", "---", "...", "<<<<<<< HEAD", "=======", ">>>>>>> x", "\u{c}", "-- ",
];

/// Now and then one of the magic lines is put on a line of its own somewhere in the text.
pub fn magic_line(t: &mut Tape, mut text: String) -> String {
    if !t.chance(1, 12) {
        return text;
    }
    let starts: Vec<usize> = std::iter::once(0).chain(text.match_indices('\n').map(|(i, _)| i + 1)).collect();
    let at = starts[t.below(starts.len())];
    let line = *t.pick(MAGIC_LINES);
    let nl = if t.chance(7, 8) { "\n" } else { "" };
    text.insert_str(at, &format!("{}{}", line, nl));
    text
}

/// A long document with a multi-byte character across a power-of-two byte offset.
pub fn block_boundary_doc(t: &mut Tape) -> String {
    let block = *t.pick(&[512usize, 1024, 4096, 8192, 16384, 65536]);
    let k = t.range(1, 3);
    let back = t.range(1, 3);
    let c = *t.pick(&["é", "€", "😀", "\u{2011}"]);
    let mut text = String::from("A: ");
    let filler = *t.pick(&["x", "y z", "ab\n "]);
    while text.len() + back < block * k {
        let room = block * k - back - text.len();
        if room >= filler.len() {
            text.push_str(filler);
        } else {
            text.push_str(&"w"[..].repeat(room));
        }
    }
    // `back` bytes before the boundary: the character (2-4 bytes) usually straddles it
    for _ in 0..t.range(1, 3) {
        text.push_str(c);
    }
    text.push_str("\nB: c\n");
    text
}

pub fn edge_decorate(t: &mut Tape, text: String) -> String {
    let text = magic_line(t, text);
    match t.below(12) {
        0 => format!("{}{}", t.pick(EDGE_CHARS), text),
        1 => format!("{}{}", text, t.pick(EDGE_CHARS)),
        _ => text,
    }
}

fn enum_len(tier: Tier) -> u32 {
    match tier {
        Tier::Quick => 6,
        Tier::Thorough => 7,
    }
}

/// Harness-side replay of the documented lexer modes over the *input* (not lexer internals):
/// records (mode x character class) pairs visited.
pub fn transition_labels(ctx: &mut Ctx, s: &str) {
    #[derive(Clone, Copy, PartialEq)]
    enum M {
        LineStart,
        AfterIndent,
        InKey,
        InValue,
        InComment,
    }
    let mut m = M::LineStart;
    for c in s.chars() {
        let cls = match c {
            '\n' => "LF",
            '\r' => "CR",
            ' ' => "SP",
            '\t' => "TAB",
            ':' => "COLON",
            '#' => "HASH",
            '-' => "DASH",
            c if c.is_ascii_graphic() => "KEYCH",
            c if c.is_ascii() => "CTRL",
            _ => "MULTIBYTE",
        };
        let label: &'static str = match (m, cls) {
            (M::LineStart, "LF") => "linestart/LF", (M::LineStart, "CR") => "linestart/CR", (M::LineStart, "SP") => "linestart/SP",
            (M::LineStart, "TAB") => "linestart/TAB", (M::LineStart, "COLON") => "linestart/COLON", (M::LineStart, "HASH") => "linestart/HASH",
            (M::LineStart, "DASH") => "linestart/DASH", (M::LineStart, "KEYCH") => "linestart/KEYCH", (M::LineStart, "CTRL") => "linestart/CTRL",
            (M::LineStart, _) => "linestart/MULTIBYTE",
            (M::AfterIndent, "LF") => "afterindent/LF", (M::AfterIndent, "CR") => "afterindent/CR", (M::AfterIndent, "COLON") => "afterindent/COLON",
            (M::AfterIndent, "HASH") => "afterindent/HASH", (M::AfterIndent, "DASH") => "afterindent/DASH", (M::AfterIndent, "KEYCH") => "afterindent/KEYCH",
            (M::AfterIndent, "CTRL") => "afterindent/CTRL", (M::AfterIndent, "MULTIBYTE") => "afterindent/MULTIBYTE", (M::AfterIndent, _) => "afterindent/WS",
            (M::InKey, "LF") => "inkey/LF", (M::InKey, "CR") => "inkey/CR", (M::InKey, "SP") => "inkey/SP", (M::InKey, "TAB") => "inkey/TAB",
            (M::InKey, "COLON") => "inkey/COLON", (M::InKey, "HASH") => "inkey/HASH", (M::InKey, "DASH") => "inkey/DASH", (M::InKey, "KEYCH") => "inkey/KEYCH",
            (M::InKey, "CTRL") => "inkey/CTRL", (M::InKey, _) => "inkey/MULTIBYTE",
            (M::InValue, "LF") => "invalue/LF", (M::InValue, "CR") => "invalue/CR", (M::InValue, "COLON") => "invalue/COLON", (M::InValue, "HASH") => "invalue/HASH",
            (M::InValue, "CTRL") => "invalue/CTRL", (M::InValue, "MULTIBYTE") => "invalue/MULTIBYTE", (M::InValue, "SP") | (M::InValue, "TAB") => "invalue/WS",
            (M::InValue, _) => "invalue/OTHER",
            (M::InComment, "LF") => "incomment/LF", (M::InComment, "CR") => "incomment/CR", (M::InComment, "MULTIBYTE") => "incomment/MULTIBYTE",
            (M::InComment, _) => "incomment/OTHER",
        };
        ctx.label(label);
        m = match (m, cls) {
            (_, "LF") | (_, "CR") => M::LineStart,
            (M::LineStart, "SP") | (M::LineStart, "TAB") => M::AfterIndent,
            (M::LineStart, "HASH") => M::InComment,
            (M::LineStart, "KEYCH") => M::InKey,
            (M::LineStart, _) => M::InValue,
            (M::AfterIndent, "SP") | (M::AfterIndent, "TAB") => M::AfterIndent,
            (M::AfterIndent, "HASH") => M::InComment,
            (M::AfterIndent, _) => M::InValue,
            (M::InKey, "KEYCH") | (M::InKey, "DASH") | (M::InKey, "HASH") => M::InKey,
            (M::InKey, _) => M::InValue,
            (M::InValue, _) => M::InValue,
            (M::InComment, _) => M::InComment,
        };
    }
}

pub fn plain(s: &str) -> bool {
    s.chars().all(|c| c.is_ascii_alphanumeric() || c == ':' || c == ' ' || c == '\n')
}

/// Oracle, shared with C06's fuzz target.
pub fn check_text(ctx: &mut Ctx, s: &str) -> CheckResult {
    let (d, errs) = Deb822::from_str_relaxed(s);
    let printed = d.to_string();
    ensure_eq!(printed, s, "relaxed-roundtrip", "from_str_relaxed(s).0.to_string() != s");
    let lines = s.split('\n').count();
    ctx.nontrivial = lines >= 2 && (!errs.is_empty() || !plain(s));
    ctx.label_if(!errs.is_empty(), "tolerant-reader-reports-errors");
    ctx.label_if(errs.is_empty(), "error-free");
    let strict = Deb822::from_str(s);
    ensure_eq!(strict.is_ok(), errs.is_empty(), "strict-iff-no-errors", "from_str(s).is_ok() vs from_str_relaxed(s).1.is_empty() (errors {:?})", errs);
    if let Ok(d2) = &strict {
        ensure_eq!(d2.to_string(), s, "strict-roundtrip", "from_str(s)?.to_string() != s");
    }
    if let Err(e) = &strict {
        let lines: Vec<String> = e.to_string().lines().map(|l| l.to_string()).collect();
        let flat: Vec<String> = errs.iter().flat_map(|x| x.lines().map(|l| l.to_string()).collect::<Vec<_>>()).collect();
        ensure_eq!(lines, flat, "strict-errors-equal-relaxed-errors", "the strict reader's error list differs from the tolerant reader's");
    }
    // Read-based entry points agree with the str-based ones
    let rd = Deb822::read(s.as_bytes());
    ensure_eq!(rd.is_ok(), strict.is_ok(), "read-agrees", "Deb822::read acceptance differs from from_str");
    if let Ok(d3) = rd {
        ensure_eq!(d3.to_string(), s, "read-roundtrip", "Deb822::read(bytes)?.to_string() != s");
    }
    match Deb822::read_relaxed(s.as_bytes()) {
        Ok((d4, e4)) => {
            ensure_eq!(d4.to_string(), s, "read-relaxed-roundtrip", "read_relaxed(bytes).0.to_string() != s");
            ensure_eq!(e4, errs, "read-relaxed-errors", "read_relaxed error list differs from from_str_relaxed");
        }
        Err(e) => return crate::fail("read-relaxed-io", format!("read_relaxed failed on valid UTF-8: {}", e)),
    }
    // paragraphs print as disjoint substrings of s, in order
    let mut pos = 0usize;
    for p in d.paragraphs() {
        let pt = p.to_string();
        match s[pos..].find(&pt) {
            Some(off) => pos += off + pt.len(),
            None => return crate::fail("paragraph-substring", format!("paragraph text {:?} does not occur in order inside the input", pt)),
        }
    }
    // a second reading of the printed text behaves identically (nothing was altered)
    let (d5, e5) = Deb822::from_str_relaxed(&printed);
    ensure!(d5.to_string() == printed && e5 == errs, "reread-stable", "re-reading the printed text gives different text or errors");
    Ok(())
}

impl PropImpl for C01 {
    type Case = Case;
    fn id(&self) -> &'static str {
        "C01"
    }
    fn rule(&self) -> String {
        "cases are UTF-8 texts: (E) every string of length <= L over 14 character-class representatives (A b - : # SP TAB LF CR e-acute euro g-clef U+0001 DEL; L=6 quick, 7 thorough), \
         (R) random strings over a weighted 26-symbol alphabet (incl. U+FEFF, U+200B, NUL), optionally decorated with a special character at the very start or end, (M) rendered well-formed documents with 1-8 char/line edits (insert/delete/replace/duplicate/swap/truncate/CRLF/CR). \
         A case is non-trivial when it has >= 2 lines and (the tolerant reader reports an error or a character outside [A-Za-z0-9: LF] occurs); distinct by text hash, \
         random cases that also belong to the enumerated space are not counted again. label_histogram holds the (lexer mode x character class) pairs visited.".into()
    }
    fn assumptions(&self) -> Vec<String> {
        vec!["inputs are valid UTF-8 (&str API); Read-based entry points are fed the same bytes".into()]
    }
    fn expected_labels(&self) -> Vec<&'static str> {
        vec!["has:magic-line", "linestart/KEYCH", "linestart/MULTIBYTE", "linestart/CTRL", "linestart/DASH", "linestart/COLON", "linestart/HASH", "linestart/SP", "linestart/TAB", "linestart/LF", "linestart/CR", "afterindent/HASH", "afterindent/COLON", "afterindent/MULTIBYTE", "inkey/COLON", "inkey/MULTIBYTE", "inkey/CR", "invalue/CR", "invalue/MULTIBYTE", "incomment/CR", "tolerant-reader-reports-errors", "error-free", "origin:mutated-doc", "origin:multi-byte-character-across-a-block-boundary", "origin:thousands-of-malformed-lines"]
    }
    fn budget(&self, tier: Tier) -> Budget {
        Budget { cases_per_lane: if tier == Tier::Quick { 20000 } else { 100_000 }, tape_max: 600, cpu_s: 10 }
    }
    fn spaces(&self, tier: Tier) -> Vec<Space> {
        let l = enum_len(tier);
        vec![Space { name: format!("all strings of length <= {} over 14 class representatives", l), size: text::space_size(ALPHABET.len() as u64, l), exhaustive: true }]
    }
    fn from_enum(&self, _ctx: &mut Ctx, tier: Tier, _space: usize, index: u64) -> Case {
        Case { text: text::nth_string(ALPHABET, enum_len(tier), index), origin: "enum" }
    }
    fn from_text(&self, _ctx: &mut Ctx, t: &str) -> Option<Case> {
        Some(Case { text: t.to_string(), origin: "text" })
    }
    fn decode(&self, ctx: &mut Ctx, t: &mut Tape) -> Case {
        let long = t.chance(1, 40);
        if long && !ctx.light {
            // (B) a long document with a multi-byte character across a power-of-two byte offset: readers that take their
            // input from an io::Read in blocks must not decode the blocks separately
            let text = block_boundary_doc(t);
            return Case { text, origin: "block-boundary" };
        }
        let many = t.chance(1, 60);
        if many && !ctx.light {
            // (X) a document with very many malformed lines (around and beyond 1000 / 4096 / 65536 parser errors), then more
            // text: error-recovery limits and give-up paths must not alter what is printed
            let n = *t.pick(&[100usize, 999, 1000, 1001, 1500, 4096, 5000, 70000]);
            let bad = *t.pick(&["-\n", ":\n", "-", "é\n", " x\n", "\u{1}\n"]);
            let mut text = bad.repeat(n);
            text.push_str(*t.pick(&["\nPackage: foo\nVersion: 1\n\nA: b\n c\n", "A: b\n", "\n# c\nX: y", ""]));
            return Case { text, origin: "many-errors" };
        }
        if t.flag() {
            // (M) mutated well-formed document
            let d = doc::gen_doc(t, &doc::DocOpts::default());
            let base = d.render().text;
            let text = if t.chance(7, 8) { text::mutate(t, &base, WEIGHTED, 8) } else { base };
            Case { text: edge_decorate(t, text), origin: "mutated-doc" }
        } else {
            let text = text::weighted_text(t, WEIGHTED, 300);
            let text = edge_decorate(t, text);
            ctx.dup_of_enum = text::in_space(ALPHABET, 6, &text);
            Case { text, origin: "random" }
        }
    }
    fn classify(&self, ctx: &mut Ctx, case: &Case) {
        ctx.set_hash(&case.text);
        transition_labels(ctx, &case.text);
        ctx.label_if(case.text.lines().any(|l| MAGIC_LINES.contains(&l)), "has:magic-line");
        ctx.label(match case.origin {
            "enum" => "origin:enum",
            "mutated-doc" => "origin:mutated-doc",
            "text" => "origin:text",
            "block-boundary" => "origin:multi-byte-character-across-a-block-boundary",
            "many-errors" => "origin:thousands-of-malformed-lines",
            _ => "origin:random",
        });
    }
    fn check(&self, ctx: &mut Ctx, case: &Case) -> CheckResult {
        check_text(ctx, &case.text)
    }
    fn render(&self, case: &Case) -> String {
        format!("{:?}", case.text)
    }
}
