//! C03 Well-formed deb822 documents are accepted and read back exactly as written.
use crate::gen::doc::{self, Doc, Field, GapLine, Para};
use crate::tape::Tape;
use crate::{ensure, ensure_eq, fail, Budget, CheckResult, Ctx, Failure, PropImpl, Space, Tier};
use deb822_lossless::{Deb822, Paragraph};
use std::str::FromStr;

pub struct C03;

pub enum Case {
    WellFormed(Doc),
    Corrupted { doc: Doc, kind: &'static str, text: String },
}

pub fn doc_labels(ctx: &mut Ctx, d: &Doc) {
    let has_c = |g: &[GapLine]| g.iter().any(|x| matches!(x, GapLine::Comment(_)));
    ctx.label_if(has_c(&d.leading), "comment:top");
    ctx.label_if(has_c(&d.trailing), "comment:end");
    ctx.label_if(d.gaps.iter().any(|g| has_c(g)), "comment:between-paragraphs");
    for p in &d.paras {
        ctx.label_if(!p.trailing_comments.is_empty(), "comment:after-last-field");
        for (i, f) in p.fields.iter().enumerate() {
            if !f.comments_before.is_empty() {
                ctx.label(if i == 0 { "comment:before-first-field" } else { "comment:between-fields" });
            }
            ctx.label_if(f.lines.len() > 1, "multi-line-value");
            ctx.label_if(f.lines.iter().skip(1).any(|l| l.is_empty()), "whitespace-only-continuation-line");
            ctx.label_if(f.lines[0].is_empty() && f.lines.len() > 1, "empty-first-line");
            ctx.label_if(f.lines.len() == 1 && f.lines[0].is_empty(), "empty-value");
            ctx.label_if(f.colon_ws.is_empty(), "no-space-after-colon");
            ctx.label_if(f.colon_ws.contains('\t') || f.indents.iter().any(|i| i.contains('\t')), "tab-whitespace");
            ctx.label_if(f.lines.iter().skip(1).any(|l| l.starts_with(':')), "continuation-starts-with-colon");
            ctx.label_if(f.lines.iter().skip(1).any(|l| l.starts_with('-')), "continuation-starts-with-dash");
            ctx.label_if(f.lines.iter().any(|l| l.ends_with(' ') || l.ends_with('\t')), "trailing-whitespace-in-line");
        }
    }
    let consecutive_empty = |g: &[GapLine]| g.windows(2).any(|w| w[0] == GapLine::Empty && w[1] == GapLine::Empty);
    ctx.label_if(d.gaps.iter().any(|g| consecutive_empty(g)) || consecutive_empty(&d.leading) || consecutive_empty(&d.trailing), "several-empty-lines");
    ctx.label_if(!d.final_newline, "no-final-newline");
    ctx.label_if(d.has_duplicate_name(), "duplicate-name");
    ctx.label_if(d.has_non_ascii(), "non-ascii-value");
    ctx.label_if(d.paras.len() >= 2, "paragraphs>=2");
    ctx.label_if(d.paras.is_empty(), "no-paragraph");
}

pub fn doc_nontrivial(d: &Doc) -> bool {
    let consecutive_empty = |g: &[GapLine]| g.windows(2).any(|w| w[0] == GapLine::Empty && w[1] == GapLine::Empty);
    d.nfields() >= 2
        && (d.has_comment()
            || d.has_multiline()
            || d.has_duplicate_name()
            || d.paras.len() >= 2
            || d.gaps.iter().any(|g| consecutive_empty(g))
            || !d.final_newline
            || d.has_non_ascii())
}

/// The content oracle shared by C03/C04/C05/C07: a parsed document equals a list-of-lists model.
pub fn check_content(d: &Deb822, model: &[Vec<(String, String)>], aid: &str) -> CheckResult {
    let paras: Vec<Paragraph> = d.paragraphs().collect();
    ensure_eq!(paras.len(), model.len(), format!("{}/paragraph-count", aid), "number of paragraphs");
    for (pi, (p, m)) in paras.iter().zip(model.iter()).enumerate() {
        let items: Vec<(String, String)> = p.items().collect();
        ensure_eq!(&items, m, format!("{}/items", aid), "items() of paragraph {}", pi);
        let keys: Vec<String> = p.keys().collect();
        let mkeys: Vec<String> = m.iter().map(|x| x.0.clone()).collect();
        ensure_eq!(keys, mkeys, format!("{}/keys", aid), "keys() of paragraph {}", pi);
        for (name, _) in m {
            let first = m.iter().find(|x| &x.0 == name).map(|x| x.1.clone());
            ensure_eq!(p.get(name), first, format!("{}/get-first", aid), "get({:?}) of paragraph {}", name, pi);
            let all: Vec<String> = m.iter().filter(|x| &x.0 == name).map(|x| x.1.clone()).collect();
            ensure_eq!(p.get_all(name).collect::<Vec<_>>(), all, format!("{}/get-all", aid), "get_all({:?}) of paragraph {}", name, pi);
            ensure!(p.contains_key(name), format!("{}/contains-key", aid), "contains_key({:?}) is false for a present field", name);
        }
        let absent = "No-Such-Field";
        if !m.iter().any(|x| x.0 == absent) {
            ensure!(p.get(absent).is_none() && !p.contains_key(absent) && p.get_all(absent).next().is_none(), format!("{}/absent", aid), "an absent field is reported present");
        }
    }
    Ok(())
}

fn skeleton(index: u64) -> Doc {
    // 9 comment slots x final newline x blank count x colon spacing x multi-line second field
    let mut i = index;
    let mut bit = || {
        let b = i & 1 == 1;
        i >>= 1;
        b
    };
    let slots: Vec<bool> = (0..9).map(|_| bit()).collect();
    let final_newline = !bit();
    let blanks = if bit() { 2 } else { 1 };
    let multi = bit();
    let colon_ws = ["", " ", "\t "][(i % 3) as usize];
    let c = |on: bool, n: usize| if on { vec![format!("# c{}", n)] } else { vec![] };
    let g = |on: bool, n: usize| if on { vec![GapLine::Comment(format!("# g{}", n))] } else { vec![] };
    let mk = |name: &str, v: &str, cb: Vec<String>| {
        let mut f = Field::simple(name, v);
        f.colon_ws = colon_ws.to_string();
        f.comments_before = cb;
        f
    };
    let second = if multi { "v\nw x\n:y" } else { "v" };
    let p0 = Para { fields: vec![mk("A", "1", c(slots[1], 1)), mk("B", second, c(slots[2], 2))], trailing_comments: c(slots[3], 3) };
    let p1 = Para { fields: vec![mk("A", "2", c(slots[5], 5)), mk("A", second, c(slots[6], 6))], trailing_comments: c(slots[7], 7) };
    let mut gap = vec![GapLine::Empty; blanks];
    if slots[4] {
        gap.insert(1, GapLine::Comment("# g4".into()));
    }
    let mut trailing = g(slots[8], 8);
    if !trailing.is_empty() {
        trailing.insert(0, GapLine::Empty);
    }
    Doc { leading: g(slots[0], 0), paras: vec![p0, p1], gaps: vec![gap], trailing, final_newline }
}
const SKELETON_SIZE: u64 = 512 * 2 * 2 * 2 * 3;

impl PropImpl for C03 {
    type Case = Case;
    fn id(&self) -> &'static str {
        "C03"
    }
    fn rule(&self) -> String {
        "cases are documents rendered from a known model (0-4 paragraphs x 1-6 fields x 1-4 lines; names incl. odd printable ASCII; Unicode value lines; comments top/before/between/after fields, \
         between paragraphs and at the end; 1+ empty lines between paragraphs; 0-4 spaces/tabs after the colon; 1-6 spaces/tabs indentation; optional final newline), plus (E) all 12288 layouts of a \
         2-paragraph x 2-field skeleton (9 comment slots x final newline x 1-2 blank lines x multi-line x 3 colon spacings), plus single-line corruptions (k1 key without colon, k2 name starting \
         with '-', k3 indented line after an empty line/at file start, k4 line starting with a control or non-ASCII character) for the rejection clause. Non-trivial: >= 2 fields and a comment, \
         multi-line value, duplicate name, >= 2 paragraphs, several empty lines, missing final newline or non-ASCII value; corrupted cases count as non-trivial when the base document is. \
         Distinct by text hash.".into()
    }
    fn expected_labels(&self) -> Vec<&'static str> {
        vec!["comment:top", "comment:before-first-field", "comment:between-fields", "comment:after-last-field", "comment:between-paragraphs", "comment:end", "multi-line-value", "empty-first-line", "empty-value", "no-space-after-colon", "tab-whitespace", "continuation-starts-with-colon", "several-empty-lines", "no-final-newline", "duplicate-name", "non-ascii-value", "k1-key-without-colon", "k2-name-starts-with-dash", "k3-continuation-of-nothing", "k4-control-or-non-ascii-line-start"]
    }
    fn budget(&self, tier: Tier) -> Budget {
        Budget { cases_per_lane: if tier == Tier::Quick { 45000 } else { 180000 }, tape_max: 700, cpu_s: 10 }
    }
    fn spaces(&self, _tier: Tier) -> Vec<Space> {
        vec![Space { name: "all layouts of the 2x2 skeleton".into(), size: SKELETON_SIZE, exhaustive: true }]
    }
    fn from_enum(&self, _ctx: &mut Ctx, _tier: Tier, _space: usize, index: u64) -> Case {
        Case::WellFormed(skeleton(index))
    }
    fn decode(&self, ctx: &mut Ctx, t: &mut Tape) -> Case {
        let corrupt = t.chance(1, 5);
        let mut o = doc::DocOpts::default();
        if false {
            o.comments = false;
        }
        let d = doc::gen_doc(t, &o);
        if !corrupt {
            return Case::WellFormed(d);
        }
        let base = d.render().text;
        let mut lines: Vec<String> = base.split_inclusive('\n').map(|s| s.to_string()).collect();
        let kind = *t.pick(&["k1-key-without-colon", "k2-name-starts-with-dash", "k3-continuation-of-nothing", "k4-control-or-non-ascii-line-start"]);
        // positions where every preceding line is newline-terminated
        let npos = if base.ends_with('\n') || base.is_empty() { lines.len() + 1 } else { lines.len() };
        let line = match kind {
            "k1-key-without-colon" => t.pick(&["Foo\n", "a\n", "X-y \n", "Foo bar\n"]).to_string(),
            "k2-name-starts-with-dash" => t.pick(&["-a: x\n", "-: y\n", "--Foo: 1\n"]).to_string(),
            "k4-control-or-non-ascii-line-start" => t.pick(&["\u{1}a: x\n", "é: x\n", "€\n", "\u{7f}A: 1\n", "𝄞: 1\n"]).to_string(),
            _ => t.pick(&[" x\n", "\ty: z\n", "  a b\n"]).to_string(),
        };
        let pos = if kind == "k3-continuation-of-nothing" {
            // after an empty line, or at file start
            let mut cands = vec![0usize];
            for (i, l) in lines.iter().enumerate() {
                if l == "\n" && i + 1 < npos {
                    cands.push(i + 1);
                }
            }
            *t.pick(&cands)
        } else {
            t.below(npos)
        };
        // at the very end of the document the corrupting line may itself lack the final newline
        let line = if pos == lines.len() && t.chance(1, 2) { line.trim_end_matches('\n').to_string() } else { line };
        lines.insert(pos, line);
        Case::Corrupted { doc: d, kind, text: lines.concat() }
    }
    fn classify(&self, ctx: &mut Ctx, case: &Case) {
        match case {
            Case::WellFormed(d) => {
                let r = d.render();
                ctx.set_hash(&r.text);
                doc_labels(ctx, d);
                ctx.label("well-formed");
                ctx.nontrivial = doc_nontrivial(d);
            }
            Case::Corrupted { doc, kind, text } => {
                ctx.set_hash(text);
                ctx.label(kind);
                ctx.nontrivial = doc_nontrivial(doc);
            }
        }
    }
    fn check(&self, _ctx: &mut Ctx, case: &Case) -> CheckResult {
        match case {
            Case::WellFormed(doc) => {
                let text = doc.render().text;
                let d = match Deb822::from_str(&text) {
                    Ok(d) => d,
                    Err(e) => return fail("accepts-well-formed", format!("strict reader rejects a well-formed document: {:?}", e.to_string())),
                };
                let model = doc.model();
                check_content(&d, &model, "content")?;
                // the same document through the strict reader that takes an io::Read
                match Deb822::read(text.as_bytes()) {
                    Ok(d2) => check_content(&d2, &model, "content/read")?,
                    Err(e) => return fail("accepts-well-formed/read", format!("Deb822::read rejects a well-formed document: {}", e)),
                }
                match Paragraph::from_str(&text) {
                    Ok(p) => {
                        ensure!(!model.is_empty(), "paragraph-from-str", "Paragraph::from_str accepted a document without paragraphs");
                        ensure_eq!(p.items().collect::<Vec<_>>(), model[0], "paragraph-from-str", "Paragraph::from_str does not return the first paragraph");
                    }
                    Err(e) => ensure!(model.is_empty(), "paragraph-from-str", "Paragraph::from_str rejects a well-formed document with paragraphs: {}", e),
                }
                Ok(())
            }
            Case::Corrupted { kind, text, .. } => {
                ensure!(Deb822::from_str(text).is_err(), format!("rejects/{}", kind), "the strict reader accepts a document with a line that is neither field, continuation, comment nor blank");
                let (d, errs) = Deb822::from_str_relaxed(text);
                ensure!(!errs.is_empty(), format!("rejects/{}", kind), "the tolerant reader reports no error for the corrupted document");
                ensure_eq!(d.to_string(), *text, "corrupted-roundtrip", "tolerant reader alters a corrupted document");
                Ok(())
            }
        }
    }
    fn finding_of(&self, _case: &Case, _f: &Failure) -> Option<&'static str> {
        None
    }
    fn render(&self, case: &Case) -> String {
        match case {
            Case::WellFormed(d) => format!("well-formed document {:?}\nmodel: {:?}", d.render().text, d.model()),
            Case::Corrupted { kind, text, .. } => format!("corrupted ({}) document {:?}", kind, text),
        }
    }
}
