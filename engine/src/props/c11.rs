//! C11 Editing relationship fields keeps them well-formed and matches a list model.
use crate::gen::rel::{self, Item, Layout, Op, Rel, RelField, RelOpts};
use crate::props::c10::{lossless_entries, same_entries, vc_of};
use crate::tape::Tape;
use crate::{ensure, ensure_eq, Budget, CheckResult, Ctx, Failure, PropImpl, Space, Tier};
use debian_control::lossless::relations as ll;
use debian_control::relations::BuildProfile;
use std::str::FromStr;

pub struct C11;

/// How an operand (entry / relation) is constructed.
#[derive(Debug, Clone, Copy, PartialEq, Eq)]
pub enum How {
    Parse,
    /// parsed from text with surrounding whitespace (kept inside the parsed nodes)
    ParseWs,
    Construct,
    Builder,
}

#[derive(Debug, Clone)]
pub enum EOp {
    Push(Vec<Rel>, How),
    Insert(usize, Vec<Rel>, How),
    Replace(usize, Vec<Rel>, How),
    RemoveEntry(usize),
    /// Entry::remove() through a handle
    EntryRemove(usize),
    EntryPush(usize, Rel, How),
    EntryReplace(usize, usize, Rel, How),
    EntryRemoveRelation(usize, usize),
    RelRemove(usize, usize),
    SetVersion(usize, usize, Option<(Op, String)>),
    DropConstraint(usize, usize),
    SetArchqual(usize, usize, String),
    SetArchitectures(usize, usize, Vec<(bool, String)>),
    AddProfile(usize, usize, Vec<(bool, String)>),
}

pub struct Case {
    pub start: Option<(RelField, String, Layout)>,
    /// the start text has white space in front of ':archqual' (accepted by the reader, not part of the stated grammar)
    pub liberal: bool,
    /// the history starts from the live object returned by Relations::wrap_and_sort() on the parsed start field
    pub normalised_first: bool,
    /// the start field is assembled from entry objects (Relations::from(Vec<Entry>)) rather than parsed
    pub assembled: Option<How>,
    pub ops: Vec<EOp>,
}

fn to_bp(g: &[(bool, String)]) -> Vec<BuildProfile> {
    g.iter().map(|(n, s)| if *n { BuildProfile::Disabled(s.clone()) } else { BuildProfile::Enabled(s.clone()) }).collect()
}

pub fn build_relation(r: &Rel, how: How) -> Result<ll::Relation, Failure> {
    let version = r.version.as_ref().map(|(op, v)| (vc_of(*op), debversion::Version::from_str(v).expect("valid version")));
    let archs: Vec<String> = r.archs.as_ref().map(|a| a.iter().map(|(n, s)| format!("{}{}", if *n { "!" } else { "" }, s)).collect()).unwrap_or_default();
    match how {
        How::Parse => ll::Relation::from_str(&r.canonical()).map_err(|e| Failure { assertion: "operand-parse".into(), message: format!("Relation::from_str({:?}): {}", r.canonical(), e) }),
        How::ParseWs => {
            let text = format!(" {}  ", r.canonical());
            ll::Relation::from_str(&text).map_err(|e| Failure { assertion: "operand-parse".into(), message: format!("Relation::from_str({:?}): {}", text, e) })
        }
        How::Construct => {
            let mut x = ll::Relation::new(&r.name, version);
            if let Some(q) = &r.archqual {
                x.set_archqual(q);
            }
            if r.archs.is_some() {
                x.set_architectures(archs.iter().map(|s| s.as_str()));
            }
            for g in &r.profiles {
                x.add_profile(&to_bp(g));
            }
            Ok(x)
        }
        How::Builder => {
            let mut b = ll::Relation::build(&r.name);
            if let Some((vc, v)) = version {
                b = b.version_constraint(vc, v);
            }
            if let Some(q) = &r.archqual {
                b = b.archqual(q);
            }
            if r.archs.is_some() {
                b = b.architectures(archs);
            }
            b = b.profiles(r.profiles.iter().map(|g| to_bp(g)).collect());
            Ok(b.build())
        }
    }
}

pub fn build_entry(e: &[Rel], how: How) -> Result<ll::Entry, Failure> {
    match how {
        How::Parse | How::ParseWs => {
            let mut text = e.iter().map(|r| r.canonical()).collect::<Vec<_>>().join(if how == How::ParseWs { "  |\t" } else { " | " });
            if how == How::ParseWs {
                text = format!("  {} ", text);
            }
            ll::Entry::from_str(&text).map_err(|err| Failure { assertion: "operand-parse".into(), message: format!("Entry::from_str({:?}): {}", text, err) })
        }
        _ => Ok(ll::Entry::from(e.iter().map(|r| build_relation(r, how)).collect::<Result<Vec<_>, _>>()?)),
    }
}

/// Separators beyond the ones needed between the `items` entries/substvars of the field: empty entries,
/// dangling and duplicated commas all show up here (test-pinned leftovers such as "foo, , " are allowed to
/// persist, new ones are not).
fn excess_separators(t: &str, items: usize) -> usize {
    let commas = t.matches(',').count();
    commas.saturating_sub(items.saturating_sub(1))
}

/// Apply the operation to the model; None if the operation's index precondition does not hold.
pub fn apply_model(m: &mut Vec<Vec<Rel>>, op: &EOp) -> bool {
    let has = |m: &Vec<Vec<Rel>>, i: usize, j: usize| i < m.len() && j < m[i].len();
    match op {
        EOp::Push(e, _) => m.push(e.clone()),
        EOp::Insert(i, e, _) => {
            let at = (*i).min(m.len());
            m.insert(at, e.clone())
        }
        EOp::Replace(i, e, _) => {
            if *i >= m.len() {
                return false;
            }
            m[*i] = e.clone()
        }
        EOp::RemoveEntry(i) | EOp::EntryRemove(i) => {
            if *i >= m.len() {
                return false;
            }
            m.remove(*i);
        }
        EOp::EntryPush(i, r, _) => {
            if *i >= m.len() {
                return false;
            }
            m[*i].push(r.clone())
        }
        EOp::EntryReplace(i, j, r, _) => {
            if !has(m, *i, *j) {
                return false;
            }
            m[*i][*j] = r.clone()
        }
        EOp::EntryRemoveRelation(i, j) | EOp::RelRemove(i, j) => {
            if !has(m, *i, *j) {
                return false;
            }
            m[*i].remove(*j);
            if m[*i].is_empty() {
                m.remove(*i);
            }
        }
        EOp::SetVersion(i, j, v) => {
            if !has(m, *i, *j) {
                return false;
            }
            m[*i][*j].version = v.clone()
        }
        EOp::DropConstraint(i, j) => {
            if !has(m, *i, *j) {
                return false;
            }
            m[*i][*j].version = None
        }
        EOp::SetArchqual(i, j, q) => {
            if !has(m, *i, *j) {
                return false;
            }
            m[*i][*j].archqual = Some(q.clone())
        }
        EOp::SetArchitectures(i, j, a) => {
            if !has(m, *i, *j) {
                return false;
            }
            m[*i][*j].archs = Some(a.clone())
        }
        EOp::AddProfile(i, j, g) => {
            if !has(m, *i, *j) {
                return false;
            }
            m[*i][*j].profiles.push(g.clone())
        }
    }
    true
}

/// `kept`: the entry handle used by the previous step, if that step went through an entry handle. Consecutive edits of the same
/// entry reuse it (a caller holding `let mut e = relations.get_entry(i)` and editing through `e` repeatedly); any field-level
/// operation drops it.
fn apply_live(root: &mut ll::Relations, op: &EOp, kept: &mut Option<(usize, ll::Entry)>) -> CheckResult {
    let target = match op {
        EOp::EntryPush(i, ..) | EOp::EntryReplace(i, ..) | EOp::EntryRemoveRelation(i, _) | EOp::RelRemove(i, _) | EOp::SetVersion(i, ..) | EOp::DropConstraint(i, _) | EOp::SetArchqual(i, ..) | EOp::SetArchitectures(i, ..) | EOp::AddProfile(i, ..) => Some(*i),
        _ => None,
    };
    if target.is_none() || kept.as_ref().map(|k| Some(k.0) != target).unwrap_or(false) {
        *kept = None;
    }
    if let (Some(i), None) = (target, kept.as_ref()) {
        let e = root.get_entry(i).ok_or_else(|| Failure { assertion: "handle/get-entry".into(), message: format!("get_entry({}) is None on {:?}", i, root.to_string()) })?;
        *kept = Some((i, e));
    }
    if target.is_some() {
        let e: &mut ll::Entry = &mut kept.as_mut().unwrap().1;
        let relation = |e: &ll::Entry, i: usize, j: usize| -> Result<ll::Relation, Failure> {
            e.get_relation(j).ok_or_else(|| Failure { assertion: "handle/get-relation".into(), message: format!("get_relation({}) of entry {} is None ({:?})", j, i, e.to_string()) })
        };
        match op {
            EOp::EntryPush(_, r, how) => e.push(build_relation(r, *how)?),
            EOp::EntryReplace(_, j, r, how) => e.replace(*j, build_relation(r, *how)?),
            EOp::EntryRemoveRelation(_, j) => {
                e.remove_relation(*j);
            }
            EOp::RelRemove(i, j) => relation(e, *i, *j)?.remove(),
            EOp::SetVersion(i, j, v) => relation(e, *i, *j)?.set_version(v.as_ref().map(|(op, s)| (vc_of(*op), debversion::Version::from_str(s).expect("valid version")))),
            EOp::DropConstraint(i, j) => {
                relation(e, *i, *j)?.drop_constraint();
            }
            EOp::SetArchqual(i, j, q) => relation(e, *i, *j)?.set_archqual(q),
            EOp::SetArchitectures(i, j, a) => {
                let strs: Vec<String> = a.iter().map(|(n, s)| format!("{}{}", if *n { "!" } else { "" }, s)).collect();
                relation(e, *i, *j)?.set_architectures(strs.iter().map(|s| s.as_str()))
            }
            EOp::AddProfile(i, j, g) => relation(e, *i, *j)?.add_profile(&to_bp(g)),
            _ => unreachable!(),
        }
        return Ok(());
    }
    match op {
        EOp::Push(e, how) => root.push(build_entry(e, *how)?),
        EOp::Insert(i, e, how) => root.insert(*i, build_entry(e, *how)?),
        EOp::Replace(i, e, how) => root.replace(*i, build_entry(e, *how)?),
        EOp::RemoveEntry(i) => {
            root.remove_entry(*i);
        }
        EOp::EntryRemove(i) => root.get_entry(*i).ok_or_else(|| Failure { assertion: "handle/get-entry".into(), message: format!("get_entry({}) is None on {:?}", i, root.to_string()) })?.remove(),
        _ => unreachable!(),
    }
    Ok(())
}

/// indices of model entries that the operation leaves untouched: (old index, new index)
fn untouched(op: &EOp, old_len: usize, removed_entry: bool) -> Vec<(usize, usize)> {
    let all = |skip: Option<usize>| (0..old_len).filter(|k| Some(*k) != skip).map(|k| (k, k)).collect::<Vec<_>>();
    match op {
        EOp::Push(..) => all(None),
        EOp::Insert(i, ..) => {
            let at = (*i).min(old_len);
            (0..old_len).map(|k| (k, if k < at { k } else { k + 1 })).collect()
        }
        EOp::Replace(i, ..) => all(Some(*i)),
        EOp::RemoveEntry(i) | EOp::EntryRemove(i) => (0..old_len).filter(|k| k != i).map(|k| (k, if k < *i { k } else { k - 1 })).collect(),
        EOp::EntryRemoveRelation(i, _) | EOp::RelRemove(i, _) if removed_entry => (0..old_len).filter(|k| k != i).map(|k| (k, if k < *i { k } else { k - 1 })).collect(),
        EOp::EntryPush(i, ..) | EOp::EntryReplace(i, ..) | EOp::EntryRemoveRelation(i, _) | EOp::RelRemove(i, _) | EOp::SetVersion(i, ..) | EOp::DropConstraint(i, _) | EOp::SetArchqual(i, ..)
        | EOp::SetArchitectures(i, ..) | EOp::AddProfile(i, ..) => all(Some(*i)),
    }
}

pub fn run(case: &Case) -> CheckResult {
    let (mut root, mut model, mut substvars): (ll::Relations, Vec<Vec<Rel>>, Vec<String>) = match &case.start {
        None => (ll::Relations::new(), vec![], vec![]),
        Some((f, text, _)) => {
            let (r, errs) = ll::Relations::parse_relaxed(text, true);
            if case.liberal {
                // white space in front of an architecture qualifier is outside the stated grammar; the reader happens to
                // accept it. Where it does not (or reads something else), the case does not apply.
                if !errs.is_empty() || !lossless_entries(&r).map(|e| same_entries(&e, &f.entries())).unwrap_or(false) {
                    return Ok(());
                }
            }
            ensure!(errs.is_empty(), "start-parses", "well-formed start field {:?} has errors {:?}", text, errs);
            if let Some(how) = case.assembled {
                let entries = f.entries().iter().map(|e| build_entry(e, how)).collect::<Result<Vec<_>, _>>()?;
                let a = ll::Relations::from(entries);
                let got = lossless_entries(&a)?;
                ensure!(same_entries(&got, &f.entries()), "assembled-start", "Relations::from(entries) prints {:?}, live accessors give {:?}, the entries were {:?}", a.to_string(), got, f.entries());
                (a, f.entries(), vec![])
            } else if case.normalised_first {
                // the start model is what the live normalised field reports (that normalising keeps the meaning is C13's business)
                let w = r.wrap_and_sort();
                let m = lossless_entries(&w)?;
                let sv: Vec<String> = w.substvars().collect();
                (w, m, sv)
            } else {
                (r, f.entries(), f.substvars())
            }
        }
    };
    let mut kept: Option<(usize, ll::Entry)> = None;
    for (step, op) in case.ops.iter().enumerate() {
        let before = root.to_string();
        let before_entries: Vec<String> = root.entries().map(|e| e.to_string().trim().to_string()).collect();
        let old_len = model.len();
        let mut m2 = model.clone();
        if !apply_model(&mut m2, op) {
            continue; // index precondition not met (the generator only emits valid indices; shrinking may not)
        }
        apply_live(&mut root, op, &mut kept)?;
        let removed_entry = m2.len() < old_len;
        if removed_entry {
            // the entry the kept handle pointed to may be gone, and indices have shifted
            kept = None;
        }
        model = m2;
        let t = root.to_string();
        let (re, errs) = ll::Relations::parse_relaxed(&t, true);
        ensure!(errs.is_empty(), "well-formed-after-edit", "step {} ({:?}): the field prints {:?} (was {:?}), which has errors {:?}", step, op, t, before, errs);
        let got = lossless_entries(&re)?;
        ensure!(same_entries(&got, &model), "model-after-edit", "step {} ({:?}): the field prints {:?} (was {:?}) and reads as {:?}, the list model is {:?}", step, op, t, before, got, model);
        // the live tree agrees with its own text
        let live = lossless_entries(&root)?;
        ensure!(same_entries(&live, &model), "live-model", "step {} ({:?}): live accessors give {:?}, the list model is {:?} (text {:?})", step, op, live, model, t);
        ensure_eq!(re.substvars().collect::<Vec<_>>(), substvars, "substvars-kept", "step {} ({:?}): substitution variables of {:?} (was {:?})", step, op, t, before);
        ensure!(excess_separators(&t, model.len() + substvars.len()) <= excess_separators(&before, old_len + substvars.len()), "no-new-empty-entries", "step {} ({:?}): {:?} -> {:?} introduces an empty entry / dangling or duplicated comma", step, op, before, t);
        let after_entries: Vec<String> = re.entries().map(|e| e.to_string().trim().to_string()).collect();
        for (o, n) in untouched(op, old_len, removed_entry) {
            if o < before_entries.len() && n < after_entries.len() {
                ensure_eq!(after_entries[n], before_entries[o], "untouched-entry-text", "step {} ({:?}): entry {} changed its text ({:?} -> {:?})", step, op, o, before, t);
            }
        }
        let _ = &mut substvars;
    }
    Ok(())
}

// ------------------------------------------------------------------------------------------
// generation

fn gen_small_rel(t: &mut Tape) -> Rel {
    let o = RelOpts { max_layout: Layout::L0, ..Default::default() };
    if t.chance(1, 2) {
        Rel::simple(*t.pick(&["x", "y", "new-pkg"]))
    } else {
        rel::gen_rel(t, &o)
    }
}

fn gen_how(t: &mut Tape) -> How {
    *t.pick(&[How::Parse, How::Construct, How::Builder, How::ParseWs])
}

fn gen_op(t: &mut Tape, m: &Vec<Vec<Rel>>) -> EOp {
    let n = m.len();
    let ne = |t: &mut Tape| -> Vec<Rel> {
        let mut e = vec![gen_small_rel(t)];
        while t.more(e.len(), 1, 3, 1, 4) {
            e.push(gen_small_rel(t));
        }
        e
    };
    if n == 0 {
        return match t.below(2) {
            0 => EOp::Push(ne(t), gen_how(t)),
            _ => EOp::Insert(t.below(3), ne(t), gen_how(t)),
        };
    }
    let i = t.below(n);
    let j = t.below(m[i].len());
    match t.below(14) {
        0 => EOp::Push(ne(t), gen_how(t)),
        1 => EOp::Insert(t.below(n + 2), ne(t), gen_how(t)),
        2 => EOp::Replace(i, ne(t), gen_how(t)),
        3 => EOp::RemoveEntry(i),
        4 => EOp::EntryRemove(i),
        5 => EOp::EntryPush(i, gen_small_rel(t), gen_how(t)),
        6 => EOp::EntryReplace(i, j, gen_small_rel(t), gen_how(t)),
        7 => EOp::EntryRemoveRelation(i, j),
        8 => EOp::RelRemove(i, j),
        9 => {
            let v = if t.chance(3, 4) { Some((*t.pick(&Op::ALL), rel::gen_version(t, true))) } else { None };
            EOp::SetVersion(i, j, v)
        }
        10 => EOp::DropConstraint(i, j),
        11 => EOp::SetArchqual(i, j, t.pick(&["any", "native", "amd64"]).to_string()),
        12 => {
            let neg = t.chance(1, 3);
            let mut a = vec![(neg, t.pick(rel::ARCHES).to_string())];
            while t.more(a.len(), 1, 3, 1, 3) {
                a.push((neg, t.pick(rel::ARCHES).to_string()));
            }
            EOp::SetArchitectures(i, j, a)
        }
        _ => {
            let mut g = vec![(t.chance(1, 2), t.pick(rel::PROFILES).to_string())];
            while t.more(g.len(), 1, 2, 1, 3) {
                g.push((t.chance(1, 2), t.pick(rel::PROFILES).to_string()));
            }
            EOp::AddProfile(i, j, g)
        }
    }
}

const E_LAYOUTS: &[&str] = &["", "a", "a, b", "a | b, c", "a,\n b (>= 1),\n c", "a, , b", "${misc:Depends}, a", "a, ${x:y}", "a (>= 1) | b [amd64] <x>, c:any", " a ,  b "];

fn field_of_text(text: &str) -> RelField {
    // fixed layouts are simple enough for a tiny parser of their own
    let mut f = RelField::default();
    if text.trim().is_empty() {
        return f;
    }
    for part in text.split(',') {
        let p = part.trim();
        if p.is_empty() {
            f.items.push(Item::Empty);
        } else if p.starts_with("${") {
            f.items.push(Item::Substvar(p.to_string()));
        } else {
            f.items.push(Item::Entry(p.split('|').map(|a| rel::ref_parse_rel(a.trim()).expect("fixed layout")).collect()));
        }
    }
    f
}

fn enum_ops(m: &Vec<Vec<Rel>>) -> Vec<EOp> {
    // operations over operand names {x, y} and every valid index of the current model
    let mut v = vec![];
    let x = || vec![Rel::simple("x")];
    let y2 = || vec![Rel::simple("y"), Rel { version: Some((Op::Ge, "1:2".into())), ..Rel::simple("x") }];
    v.push(EOp::Push(x(), How::Parse));
    v.push(EOp::Push(y2(), How::Construct));
    v.push(EOp::Push(x(), How::ParseWs));
    for i in 0..=m.len() + 1 {
        v.push(EOp::Insert(i, x(), How::Construct));
    }
    for i in 0..m.len() {
        v.push(EOp::Replace(i, y2(), How::Parse));
        v.push(EOp::RemoveEntry(i));
        v.push(EOp::EntryRemove(i));
        v.push(EOp::EntryPush(i, Rel::simple("x"), How::Builder));
        for j in 0..m[i].len() {
            v.push(EOp::EntryReplace(i, j, Rel::simple("y"), How::Construct));
            v.push(EOp::EntryReplace(i, j, Rel::simple("x"), How::ParseWs));
            v.push(EOp::EntryRemoveRelation(i, j));
            v.push(EOp::RelRemove(i, j));
            v.push(EOp::SetVersion(i, j, Some((Op::Lt, "2~".into()))));
            v.push(EOp::SetVersion(i, j, None));
            v.push(EOp::SetArchqual(i, j, "any".into()));
            v.push(EOp::SetArchitectures(i, j, vec![(true, "amd64".into())]));
            v.push(EOp::AddProfile(i, j, vec![(true, "nocheck".into())]));
        }
    }
    v
}

/// Mixed-radix over a *state-dependent* operation list: the index picks the k-th available operation (mod
/// its count) at each of up to 3 steps. Every history of valid operations of length <= 3 is reached because the
/// radix 96 exceeds the largest operation list (complete for lists of <= 96 operations, checked in from_enum).
const RADIX: u64 = 96;
const HIST: u64 = 1 + RADIX + RADIX * RADIX + RADIX * RADIX * RADIX;

impl PropImpl for C11 {
    type Case = Case;
    fn id(&self) -> &'static str {
        "C11"
    }
    fn rule(&self) -> String {
        "cases are histories of 1-10 editing operations (Relations push/insert/replace/remove_entry, Entry push/replace/remove_relation/remove, Relation set_version/drop_constraint/set_archqual/\
         set_architectures/add_profile/remove; operands built by parsing, by the constructors and by the builder; insert indices 0..=len+1, other indices valid) on Relations::new() or a generated \
         well-formed field (layouts incl. newlines after commas, empty entries, substitution variables) parsed with parse_relaxed(_, true); entry/relation edits go through get_entry/get_relation handles. \
         After every step the printed field must parse without error to the list-of-lists model, keep its substvars and untouched entries verbatim and gain no empty entry. (E) histories of <= 2 steps over \
         every applicable operation (operand names x/y) on 10 start layouts. Non-trivial: >= 2 model-changing steps of which one adds/removes an entry or alternative at the first or last position or next to \
         an empty entry/substvar/newline. Distinct by hash of (start text, history).".into()
    }
    fn expected_labels(&self) -> Vec<&'static str> {
        vec!["op:push", "op:insert", "op:replace", "op:remove_entry", "op:Entry::remove", "op:Entry::push", "op:Entry::replace", "op:Entry::remove_relation", "op:Relation::remove", "op:set_version(Some)", "op:set_version(None)", "op:drop_constraint", "op:set_archqual", "op:set_architectures", "op:add_profile", "operand:parsed", "operand:constructed", "operand:builder", "operand:parsed-with-surrounding-whitespace", "start:empty-field", "start:has-substvar", "start:has-empty-entry", "start:has-newline", "start:white-space-before-archqual", "start:result-of-wrap-and-sort", "start:assembled-from-entry-objects"]
    }
    fn budget(&self, tier: Tier) -> Budget {
        Budget { cases_per_lane: if tier == Tier::Quick { 30000 } else { 120000 }, tape_max: 600, cpu_s: 10 }
    }
    fn spaces(&self, tier: Tier) -> Vec<Space> {
        let depth = if tier == Tier::Quick { 1 + RADIX + RADIX * RADIX } else { HIST };
        vec![Space { name: format!("histories of <= {} steps over all applicable operations on 10 layouts", if tier == Tier::Quick { 2 } else { 3 }), size: depth * E_LAYOUTS.len() as u64, exhaustive: true }]
    }
    fn from_enum(&self, ctx: &mut Ctx, tier: Tier, _space: usize, index: u64) -> Case {
        let depth = if tier == Tier::Quick { 1 + RADIX + RADIX * RADIX } else { HIST };
        let li = (index / depth) as usize;
        let mut h = index % depth;
        let text = E_LAYOUTS[li];
        let f = field_of_text(text);
        let len = if h < 1 { 0 } else if h < 1 + RADIX { 1 } else if h < 1 + RADIX + RADIX * RADIX { 2 } else { 3 };
        h -= [0, 1, 1 + RADIX, 1 + RADIX + RADIX * RADIX][len];
        let mut m = f.entries();
        let mut ops = vec![];
        for _ in 0..len {
            let avail = enum_ops(&m);
            assert!(avail.len() as u64 <= RADIX, "operation list larger than the radix");
            let k = (h % RADIX) as usize;
            h /= RADIX;
            if k >= avail.len() {
                // this digit does not denote an operation: the history is a duplicate of a shorter one
                ctx.dup_of_enum = true;
                break;
            }
            apply_model(&mut m, &avail[k]);
            ops.push(avail[k].clone());
        }
        Case { start: if li == 0 { None } else { Some((f, text.to_string(), Layout::L1)) }, ops, liberal: false, normalised_first: false, assembled: None }
    }
    fn decode(&self, _ctx: &mut Ctx, t: &mut Tape) -> Case {
        let start = if t.chance(1, 5) {
            None
        } else {
            let o = RelOpts { max_layout: Layout::L3, max_items: 4, ..Default::default() };
            Some(rel::gen_field(t, &o))
        };
        let mut liberal = false;
        let start = match start {
            Some((f, text, l)) if t.chance(1, 6) => {
                // put a blank (or a line break and a blank) in front of every top-level ':' (architecture qualifiers)
                let mut out = String::new();
                let (mut paren, mut brace) = (0, 0);
                let ws = if t.flag() { " " } else { "\n " };
                for c in text.chars() {
                    match c {
                        '(' => paren += 1,
                        ')' => paren -= 1,
                        '{' => brace += 1,
                        '}' => brace -= 1,
                        ':' if paren == 0 && brace == 0 => {
                            out.push_str(ws);
                            liberal = true;
                        }
                        _ => {}
                    }
                    out.push(c);
                }
                Some((f, out, l))
            }
            s => s,
        };
        let normalised_first = !liberal && start.is_some() && t.chance(1, 8);
        let assembled = match &start {
            Some((f, _, _)) if !liberal && !normalised_first && !f.has_substvar() && !f.has_empty() && t.chance(1, 8) => Some(*t.pick(&[How::Construct, How::Builder, How::Parse, How::ParseWs])),
            _ => None,
        };
        let mut m = start.as_ref().map(|s| s.0.entries()).unwrap_or_default();
        if normalised_first {
            // indices of the history refer to the normalised field: sorted entries (by the reference order used in C13's
            // oracle the exact order is not needed here - operations only need valid indices)
            m.retain(|e| !e.is_empty());
        }
        let mut ops = vec![];
        while t.more(ops.len(), 1, 10, 3, 4) {
            let op = gen_op(t, &m);
            apply_model(&mut m, &op);
            ops.push(op);
        }
        Case { start, ops, liberal, normalised_first, assembled }
    }
    fn classify(&self, ctx: &mut Ctx, case: &Case) {
        let st = case.start.as_ref().map(|s| s.1.clone()).unwrap_or_default();
        ctx.set_hash(&(st.clone(), format!("{:?}", case.ops)));
        let f = case.start.as_ref().map(|s| s.0.clone()).unwrap_or_default();
        ctx.label_if(case.start.is_none(), "start:empty-field");
        ctx.label_if(f.has_substvar(), "start:has-substvar");
        ctx.label_if(f.has_empty(), "start:has-empty-entry");
        ctx.label_if(st.contains('\n'), "start:has-newline");
        ctx.label_if(case.liberal, "start:white-space-before-archqual");
        ctx.label_if(case.normalised_first, "start:result-of-wrap-and-sort");
        ctx.label_if(case.assembled.is_some(), "start:assembled-from-entry-objects");
        let mut m = f.entries();
        let mut changing = 0;
        let mut edge = false;
        for op in &case.ops {
            let before = m.clone();
            if !apply_model(&mut m, op) {
                continue;
            }
            if m != before {
                changing += 1;
            }
            let n = before.len();
            let (name, at_edge): (&'static str, bool) = match op {
                EOp::Push(..) => ("op:push", true),
                EOp::Insert(i, ..) => ("op:insert", *i == 0 || *i >= n),
                EOp::Replace(..) => ("op:replace", false),
                EOp::RemoveEntry(i) => ("op:remove_entry", *i == 0 || *i + 1 == n),
                EOp::EntryRemove(i) => ("op:Entry::remove", *i == 0 || *i + 1 == n),
                EOp::EntryPush(..) => ("op:Entry::push", true),
                EOp::EntryReplace(..) => ("op:Entry::replace", false),
                EOp::EntryRemoveRelation(i, j) => ("op:Entry::remove_relation", *j == 0 || *j + 1 == before[*i].len()),
                EOp::RelRemove(i, j) => ("op:Relation::remove", *j == 0 || *j + 1 == before[*i].len()),
                EOp::SetVersion(_, _, Some(_)) => ("op:set_version(Some)", false),
                EOp::SetVersion(_, _, None) => ("op:set_version(None)", false),
                EOp::DropConstraint(..) => ("op:drop_constraint", false),
                EOp::SetArchqual(..) => ("op:set_archqual", false),
                EOp::SetArchitectures(..) => ("op:set_architectures", false),
                EOp::AddProfile(..) => ("op:add_profile", false),
            };
            ctx.label(name);
            edge |= at_edge;
            match op {
                EOp::Push(_, h) | EOp::Insert(_, _, h) | EOp::Replace(_, _, h) | EOp::EntryPush(_, _, h) | EOp::EntryReplace(_, _, _, h) => ctx.label(match h {
                    How::Parse => "operand:parsed",
                    How::ParseWs => "operand:parsed-with-surrounding-whitespace",
                    How::Construct => "operand:constructed",
                    How::Builder => "operand:builder",
                }),
                _ => {}
            }
        }
        ctx.nontrivial = changing >= 2 && (edge || f.has_substvar() || f.has_empty() || st.contains('\n'));
    }
    fn check(&self, _ctx: &mut Ctx, case: &Case) -> CheckResult {
        run(case)
    }
    fn render(&self, case: &Case) -> String {
        format!("start {:?}{}{}\nhistory {:?}", case.start.as_ref().map(|s| s.1.as_str()), if case.normalised_first { " (then wrap_and_sort)" } else { "" }, case.assembled.map(|h| format!(" (assembled with Relations::from from entries made by {:?})", h)).unwrap_or_default(), case.ops)
    }
}
