//! C14 Lossy relations round-trip through text and convert faithfully to lossless.
use crate::gen::rel::{self, Op, Rel, RelOpts};
use crate::props::c10::{lossless_rel, lossy_rel, same_rel, vc_of};
use crate::tape::Tape;
use crate::{ensure, ensure_eq, fail, Budget, CheckResult, Ctx, PropImpl, Space, Tier};
use debian_control::lossless::relations as ll;
use debian_control::lossy;
use debian_control::relations::BuildProfile;
use std::str::FromStr;

pub struct C14;

pub struct Case {
    pub entries: Vec<Vec<Rel>>,
}

pub fn to_lossy(r: &Rel) -> lossy::Relation {
    lossy::Relation {
        name: r.name.clone(),
        archqual: r.archqual.clone(),
        architectures: r.archs.as_ref().map(|a| a.iter().map(|(n, s)| format!("{}{}", if *n { "!" } else { "" }, s)).collect()),
        version: r.version.as_ref().map(|(op, v)| (vc_of(*op), debversion::Version::from_str(v).expect("generated versions are valid"))),
        profiles: r.profiles.iter().map(|g| g.iter().map(|(n, s)| if *n { BuildProfile::Disabled(s.clone()) } else { BuildProfile::Enabled(s.clone()) }).collect()).collect(),
    }
}

fn check_rel(m: &Rel) -> CheckResult {
    let r = to_lossy(m);
    let text = r.to_string();
    ensure_eq!(text, m.canonical(), "lossy-display-canonical", "lossy Display of {:?}", m);
    match lossy::Relation::from_str(&text) {
        Ok(r2) => ensure_eq!(r2, r, "lossy-roundtrip", "lossy::Relation::from_str({:?})", text),
        Err(e) => return fail("lossy-roundtrip", format!("lossy reader rejects its own print {:?}: {}", text, e)),
    }
    match ll::Relation::from_str(&text) {
        Ok(l) => {
            ensure!(same_rel(&lossless_rel(&l)?, m), "lossless-reads-lossy-print", "lossless reader structure for {:?}: {:?}", text, lossless_rel(&l)?);
            ensure_eq!(lossy::Relation::from(l), r, "lossless-to-lossy", "lossy::Relation::from(lossless parse of {:?})", text);
        }
        Err(e) => return fail("lossless-reads-lossy-print", format!("lossless reader rejects {:?}: {}", text, e)),
    }
    let conv = ll::Relation::from(r.clone());
    ensure_eq!(conv.to_string(), text, "lossy-to-lossless-print", "lossless::Relation::from(lossy).to_string()");
    ensure!(same_rel(&lossless_rel(&conv)?, m), "lossy-to-lossless-structure", "accessors of the converted relation: {:?}", lossless_rel(&conv)?);
    let back = lossy::Relation::from(ll::Relation::from(r.clone()));
    ensure_eq!(back, r, "lossy-lossless-lossy", "lossy -> lossless -> lossy");
    // the builders produce the same values / text
    let mut b = lossy::Relation::build(&m.name);
    if let Some(q) = &m.archqual {
        b = b.archqual(q);
    }
    if let Some((op, v)) = &m.version {
        b = b.version(vc_of(*op), v);
    }
    let arch_strings: Vec<String> = r.architectures.clone().unwrap_or_default();
    if m.archs.is_some() {
        b = b.architectures(arch_strings.iter().map(|s| s.as_str()).collect());
    }
    for g in &r.profiles {
        b = b.profile(g.clone());
    }
    ensure_eq!(b.build(), r, "lossy-builder", "lossy RelationBuilder");
    let mut lb = ll::Relation::build(&m.name);
    if let Some(q) = &m.archqual {
        lb = lb.archqual(q);
    }
    if let Some((op, v)) = &m.version {
        lb = lb.version_constraint(vc_of(*op), debversion::Version::from_str(v).unwrap());
    }
    if m.archs.is_some() {
        lb = lb.architectures(arch_strings.clone());
    }
    lb = lb.profiles(r.profiles.clone());
    ensure_eq!(lb.build().to_string(), text, "lossless-builder-print", "lossless RelationBuilder output");
    Ok(())
}

impl PropImpl for C14 {
    type Case = Case;
    fn id(&self) -> &'static str {
        "C14"
    }
    fn rule(&self) -> String {
        "cases are lossy Relations values (0-5 entries x 1-3 alternatives) built field by field from valid components: every subset of optional parts, 1-4 architectures (all negated or none), \
         0-3 profile groups of 1-3 possibly negated terms, all five operators, versions with epochs/'~'/revisions; (E) all 2^4 part subsets x 5 operators x 2 names (one relation). Oracles: \
         print/parse round trip through the lossy reader, reading of the print by the lossless reader, lossy->lossless->lossy conversions, Entry<->Vec conversions, both builders. \
         Non-trivial: a relation with >= 2 optional parts or a multi-term profile group. Distinct by hash of the value.".into()
    }
    fn expected_labels(&self) -> Vec<&'static str> {
        vec!["empty-field", "has:alternatives", "part:architectures", "part:architectures+profiles", "part:archqual", "part:multi-term-profile-group", "part:negated-architecture", "part:profiles", "part:version", "plain-name"]
    }
    fn budget(&self, tier: Tier) -> Budget {
        Budget { cases_per_lane: if tier == Tier::Quick { 60000 } else { 240000 }, tape_max: 400, cpu_s: 10 }
    }
    fn spaces(&self, _tier: Tier) -> Vec<Space> {
        vec![Space { name: "one relation: all part subsets x operators x names".into(), size: 2 * 2 * 6 * 3 * 3, exhaustive: true }]
    }
    fn from_enum(&self, _ctx: &mut Ctx, _tier: Tier, _space: usize, index: u64) -> Case {
        let mut i = index;
        let mut take = |n: u64| {
            let r = i % n;
            i /= n;
            r as usize
        };
        let name = ["a", "lib-x2.0+"][take(2)];
        let archqual = [None, Some("any")][take(2)];
        let v = take(6);
        let version = if v == 0 { None } else { Some((Op::ALL[v - 1], "1:2.0~rc1-1".to_string())) };
        let archs = [None, Some(vec![(false, "amd64".to_string())]), Some(vec![(true, "amd64".to_string()), (true, "hurd-i386".to_string())])][take(3)].clone();
        let profiles = [vec![], vec![vec![(false, "a".to_string())]], vec![vec![(true, "a".to_string()), (false, "b".to_string())], vec![(false, "c".to_string())]]][take(3)].clone();
        Case { entries: vec![vec![Rel { name: name.into(), archqual: archqual.map(|s| s.to_string()), version, archs, profiles }]] }
    }
    fn decode(&self, _ctx: &mut Ctx, t: &mut Tape) -> Case {
        let o = RelOpts::default();
        let mut entries = vec![];
        while t.more(entries.len(), 0, 5, 3, 4) {
            let mut e = vec![rel::gen_rel(t, &o)];
            while t.more(e.len(), 1, 3, 1, 4) {
                e.push(rel::gen_rel(t, &o));
            }
            entries.push(e);
        }
        Case { entries }
    }
    fn classify(&self, ctx: &mut Ctx, case: &Case) {
        ctx.set_hash(&case.entries);
        for r in case.entries.iter().flatten() {
            ctx.label_if(r.archqual.is_some(), "part:archqual");
            ctx.label_if(r.version.is_some(), "part:version");
            ctx.label_if(r.archs.is_some(), "part:architectures");
            ctx.label_if(r.archs.as_ref().map(|a| a.iter().any(|x| x.0)).unwrap_or(false), "part:negated-architecture");
            ctx.label_if(!r.profiles.is_empty(), "part:profiles");
            ctx.label_if(r.archs.is_some() && !r.profiles.is_empty(), "part:architectures+profiles");
            ctx.label_if(r.profiles.iter().any(|g| g.len() > 1), "part:multi-term-profile-group");
            ctx.label_if(r.optional_parts() == 0, "plain-name");
        }
        ctx.label_if(case.entries.is_empty(), "empty-field");
        ctx.label_if(case.entries.iter().any(|e| e.len() > 1), "has:alternatives");
        ctx.nontrivial = case.entries.iter().flatten().any(|r| r.optional_parts() >= 2 || r.profiles.iter().any(|g| g.len() > 1));
    }
    fn check(&self, _ctx: &mut Ctx, case: &Case) -> CheckResult {
        for r in case.entries.iter().flatten() {
            check_rel(r)?;
        }
        let rels = lossy::Relations(case.entries.iter().map(|e| e.iter().map(to_lossy).collect()).collect());
        let text = rels.to_string();
        ensure_eq!(text, rel::canonical_entries(&case.entries), "lossy-field-display", "lossy Relations Display");
        match lossy::Relations::from_str(&text) {
            Ok(r2) => ensure_eq!(r2, rels, "lossy-field-roundtrip", "lossy::Relations::from_str({:?})", text),
            Err(e) => return fail("lossy-field-roundtrip", format!("lossy reader rejects its own print {:?}: {}", text, e)),
        }
        match ll::Relations::from_str(&text) {
            Ok(l) => {
                let got: Vec<Vec<Rel>> = crate::props::c10::lossless_entries(&l)?;
                ensure!(crate::props::c10::same_entries(&got, &case.entries), "lossless-field-structure", "lossless reader structure {:?} for {:?}", got, text);
            }
            Err(e) => return fail("lossless-field-accepts", format!("lossless reader rejects {:?}: {}", text, e)),
        }
        ensure_eq!(rels.len(), case.entries.len(), "lossy-len", "len()");
        for e in &rels.0 {
            let entry = ll::Entry::from(e.clone());
            let et = e.iter().map(|r| r.to_string()).collect::<Vec<_>>().join(" | ");
            ensure_eq!(entry.to_string(), et, "entry-from-lossy-print", "Entry::from(Vec<lossy::Relation>).to_string()");
            let back: Vec<lossy::Relation> = entry.into();
            ensure_eq!(&back, e, "entry-to-lossy", "Vec<lossy::Relation>::from(Entry::from(v))");
            // the printed entry re-reads as an entry with the same alternatives
            match ll::Entry::from_str(&et) {
                Ok(pe) => ensure_eq!(pe.relations().map(|r| lossy_rel(&lossy::Relation::from(r))).collect::<Vec<_>>(), e.iter().map(lossy_rel).collect::<Vec<_>>(), "entry-reread", "re-read of {:?}", et),
                Err(err) => return fail("entry-reread", format!("Entry::from_str rejects {:?}: {}", et, err)),
            }
        }
        Ok(())
    }
    fn render(&self, case: &Case) -> String {
        format!("lossy value (as model) {:?}\ncanonical text {:?}", case.entries, rel::canonical_entries(&case.entries))
    }
}
