//! C19 PGP clear-sign unwrapping returns exactly the payload or a specific error (fault enumeration).
use crate::tape::Tape;
use crate::{ensure_eq, Budget, CheckResult, Ctx, PropImpl, Space, Tier};
use debian_control::pgp::{strip_pgp_signature, Error};

pub struct C19;

const M: &str = "-----BEGIN PGP SIGNED MESSAGE-----";
const B: &str = "-----BEGIN PGP SIGNATURE-----";
const E: &str = "-----END PGP SIGNATURE-----";

#[derive(Debug, Clone)]
pub enum Case {
    Signed { headers: Vec<String>, payload: Vec<String>, signature: Vec<String>, appended: Vec<String> },
    Unsigned(String),
}

type R = Result<(String, Option<String>), Error>;

/// Expected result for the first `k` bytes of the wrapped message, computed from the builder's offsets.
fn expected_for_cut(k: usize, marker_end: usize, blank_end: usize, begin_end: usize, end_end: usize, text: &str, payload: &str, sig: &str) -> R {
    if k < marker_end {
        Ok((text[..k].to_string(), None))
    } else if k < blank_end {
        Err(Error::MissingPayload)
    } else if k < begin_end {
        Err(Error::MissingPgpSignature)
    } else if k < end_end {
        Err(Error::TruncatedPgpSignature)
    } else {
        Ok((payload.to_string(), Some(sig.to_string())))
    }
}

pub fn check(ctx: &mut Ctx, case: &Case) -> CheckResult {
    match case {
        Case::Unsigned(text) => {
            ensure_eq!(strip_pgp_signature(text), Ok((text.clone(), None)), "unsigned-passthrough", "text whose first line is not the marker");
            Ok(())
        }
        Case::Signed { headers, payload, signature, appended } => {
            let mut text = String::new();
            text.push_str(M);
            let marker_end = text.len();
            text.push('\n');
            for h in headers {
                text.push_str(h);
                text.push('\n');
            }
            text.push('\n');
            let blank_end = text.len();
            let pay: String = payload.iter().map(|l| format!("{}\n", l)).collect();
            text.push_str(&pay);
            text.push_str(B);
            let begin_end = text.len();
            text.push('\n');
            for s in signature {
                text.push_str(s);
                text.push('\n');
            }
            text.push_str(E);
            let end_end = text.len();
            text.push('\n');
            let sig: String = signature.concat();
            // complete message, with and without the final newline
            ensure_eq!(strip_pgp_signature(&text), Ok((pay.clone(), Some(sig.clone()))), "complete-message", "unwrapping the complete message {:?}", text);
            // every truncation point (every character boundary, which includes the end of every line)
            for k in 0..=text.len() {
                if !text.is_char_boundary(k) {
                    continue;
                }
                ctx.inner_evaluations += 1;
                let want = expected_for_cut(k, marker_end, blank_end, begin_end, end_end, &text, &pay, &sig);
                let got = strip_pgp_signature(&text[..k]);
                ensure_eq!(got, want, "truncation", "message cut after {} of {} bytes: {:?}", k, text.len(), &text[..k]);
            }
            // trailing additions
            if !appended.is_empty() {
                let mut t2 = text.clone();
                for a in appended {
                    t2.push_str(a);
                    t2.push('\n');
                }
                ctx.inner_evaluations += 2;
                ensure_eq!(strip_pgp_signature(&t2), Err(Error::JunkAfterPgpSignature), "junk-after-signature", "extra lines after the end marker: {:?}", t2);
                // also without a final newline
                t2.pop();
                if appended.last().map(|l| !l.is_empty()).unwrap_or(false) {
                    ensure_eq!(strip_pgp_signature(&t2), Err(Error::JunkAfterPgpSignature), "junk-after-signature", "extra lines after the end marker (no final newline): {:?}", t2);
                }
            }
            Ok(())
        }
    }
}

const LINE_CHARS: &[(u32, &str)] = &[(20, "a"), (6, "b"), (5, " "), (4, ":"), (4, "-"), (2, "="), (2, "1"), (2, "/"), (2, "+"), (1, "é"), (1, "€"), (1, "\t"), (1, "#"), (1, "."), (1, "\u{a0}"), (1, "\u{2028}")];

const LOOKALIKES: &[&str] = &[
    "Version: GnuPG v1",
    "Comment: GPGTools - https://gpgtools.org",
    "Hash: SHA256",
    "Charset: UTF-8",
    " -----BEGIN PGP SIGNATURE-----",
    "BEGIN PGP SIGNATURE",
    " -----END PGP SIGNATURE-----",
    "x-----BEGIN PGP SIGNED MESSAGE-----",
    "Origin: Debian",
    "Description: a",
    " continuation",
    "Hash: SHA512",
];

fn gen_line(t: &mut Tape, allow_empty: bool, allow_dash_start: bool, forbid: &[&str]) -> String {
    let mut s = match t.below(5) {
        0 if allow_empty => String::new(),
        1 => t.pick(LOOKALIKES).to_string(),
        _ => {
            let mut s = String::new();
            for _ in 0..t.range(1, 10) {
                s.push_str(t.weighted(LINE_CHARS));
            }
            s
        }
    };
    if !allow_dash_start && s.starts_with('-') {
        s.insert(0, 'x');
    }
    if !allow_empty && s.is_empty() {
        s.push('h');
    }
    if forbid.contains(&s.as_str()) {
        s.push('x');
    }
    s
}

const E_PAYLOAD: &[&str] = &["", "a: b", " -----BEGIN PGP SIGNATURE-----", "é", "x-y"];
const E_SIG: &[&str] = &["", "iQIz", "=olY7", "-----BEGIN PGP SIGNATURE-----", " -----END PGP SIGNATURE-----"];
const E_HDR: &[&str] = &["Hash: SHA512", "x", "-----BEGIN PGP SIGNATURE-----", " ", "é: 1"];

fn seqs(alpha: &[&str], mut i: u64) -> Vec<String> {
    // index -> sequence of length 0..=2 over a 5-line alphabet (1 + 5 + 25 = 31)
    if i == 0 {
        return vec![];
    }
    i -= 1;
    if i < 5 {
        return vec![alpha[i as usize].to_string()];
    }
    i -= 5;
    vec![alpha[(i / 5) as usize].to_string(), alpha[(i % 5) as usize].to_string()]
}

impl PropImpl for C19 {
    type Case = Case;
    fn id(&self) -> &'static str {
        "C19"
    }
    fn level(&self) -> &'static str {
        "fault_enumeration"
    }
    fn rule(&self) -> String {
        "a case is a clear-signed message built from 0-3 armour header lines (non-empty), 0-8 payload lines (LF-terminated, no leading '-', no CR; empty lines, marker look-alikes, deb822 content, Unicode) and \
         0-6 signature lines (anything but the end marker, incl. empty lines); the fault enumeration applies to each message EVERY truncation at every character boundary (which includes after every line, \
         with and without the newline) and appended lines; expected results come from the builder's section offsets, not from re-parsing. (E) all messages with <= 2 lines per section over 5-line alphabets \
         (29791 messages). Unsigned texts (first line not the marker, incl. empty text, padded marker, marker as second line) must pass through unchanged. Non-trivial: a message with >= 2 payload lines or a \
         blank / look-alike line. Distinct by message hash; inner_evaluations counts the (message, fault) pairs.".into()
    }
    fn expected_labels(&self) -> Vec<&'static str> {
        vec!["signed", "unsigned", "no-headers", "empty-payload", "payload:blank-line", "payload:marker-look-alike", "signature:blank-line", "empty-signature", "appended-lines", "appended-only-blank-lines"]
    }
    fn budget(&self, tier: Tier) -> Budget {
        Budget { cases_per_lane: if tier == Tier::Quick { 30000 } else { 120000 }, tape_max: 400, cpu_s: 10 }
    }
    fn spaces(&self, _tier: Tier) -> Vec<Space> {
        vec![Space { name: "all messages with <= 2 lines per section over 5-line alphabets, every fault each".into(), size: 31 * 31 * 31, exhaustive: true }]
    }
    fn from_enum(&self, _ctx: &mut Ctx, _tier: Tier, _space: usize, index: u64) -> Case {
        Case::Signed { headers: seqs(E_HDR, index % 31), payload: seqs(E_PAYLOAD, (index / 31) % 31), signature: seqs(E_SIG, index / 961), appended: if index % 3 == 0 { vec!["".into()] } else if index % 3 == 1 { vec!["junk".into()] } else { vec![] } }
    }
    fn decode(&self, _ctx: &mut Ctx, t: &mut Tape) -> Case {
        if t.chance(1, 6) {
            let text = match t.below(7) {
                0 => String::new(),
                6 => {
                    // an invisible character next to the marker: the first line is not the marker
                    let c = *t.pick(&["\u{feff}", "\u{a0}", "\u{200b}", "\u{2060}", "\u{feff}\u{feff}", "\u{85}", "\u{c}"]);
                    let body = if t.flag() { format!("\n\nx\n{}\n{}\n", B, E) } else { "\n\nx\n".to_string() };
                    if t.flag() { format!("{}{}{}", c, M, body) } else { format!("{}{}{}", M, c, body) }
                }
                1 => format!(" {}\n\nx\n{}\n{}\n", M, B, E),
                2 => format!("x\n{}\n\nx\n{}\n{}\n", M, B, E),
                3 => format!("{} \n\nx\n{}\n{}\n", M, B, E),
                4 => format!("\n{}\n\nx\n", M),
                _ => {
                    let mut s = String::new();
                    while t.more(0, 0, 1, 4, 5) {
                        s.push_str(&gen_line(t, true, true, &[M]));
                        s.push('\n');
                    }
                    if s.lines().next() == Some(M) {
                        s.insert(0, '#');
                    }
                    s
                }
            };
            return Case::Unsigned(text);
        }
        let mut headers = vec![];
        while t.more(headers.len(), 0, 3, 1, 2) {
            headers.push(gen_line(t, false, true, &[]));
        }
        let mut payload = vec![];
        while t.more(payload.len(), 0, 8, 3, 4) {
            payload.push(gen_line(t, true, false, &[]));
        }
        let mut signature = vec![];
        while t.more(signature.len(), 0, 6, 2, 3) {
            signature.push(gen_line(t, true, true, &[E]));
        }
        let mut appended = vec![];
        while t.more(appended.len(), 0, 2, 1, 2) {
            appended.push(gen_line(t, true, true, &[]));
        }
        Case::Signed { headers, payload, signature, appended }
    }
    fn classify(&self, ctx: &mut Ctx, case: &Case) {
        ctx.set_hash(&format!("{:?}", case));
        match case {
            Case::Unsigned(t) => {
                ctx.label("unsigned");
                ctx.label_if(t.is_empty(), "unsigned:empty");
                ctx.label_if(t.lines().next().map(|l| l != M && l.trim_matches(|c: char| !c.is_ascii_graphic() && c != ' ') == M && !l.is_ascii()).unwrap_or(false), "unsigned:invisible-character-next-to-the-marker");
                ctx.nontrivial = t.contains(M);
            }
            Case::Signed { headers, payload, signature, appended } => {
                ctx.label("signed");
                ctx.label_if(headers.is_empty(), "no-headers");
                ctx.label_if(payload.is_empty(), "empty-payload");
                ctx.label_if(payload.iter().any(|l| l.is_empty()), "payload:blank-line");
                ctx.label_if(payload.iter().any(|l| l.contains("PGP")), "payload:marker-look-alike");
                ctx.label_if(signature.iter().any(|l| l.is_empty()), "signature:blank-line");
                ctx.label_if(signature.is_empty(), "empty-signature");
                ctx.label_if(!appended.is_empty(), "appended-lines");
                ctx.label_if(appended.iter().all(|l| l.is_empty()) && !appended.is_empty(), "appended-only-blank-lines");
                ctx.nontrivial = payload.len() >= 2 || payload.iter().any(|l| l.is_empty() || l.contains("PGP"));
            }
        }
    }
    fn check(&self, ctx: &mut Ctx, case: &Case) -> CheckResult {
        check(ctx, case)
    }
    fn render(&self, case: &Case) -> String {
        format!("{:?}", case)
    }
}
