//! C05 Adding, inserting and removing paragraphs behaves like list operations.
use crate::gen::doc;
use crate::gen::scan::scan;
use crate::props::c04::{self, gen_value};
use crate::tape::Tape;
use crate::{ensure, ensure_eq, fail, Budget, CheckResult, Ctx, PropImpl, Space, Tier};
use deb822_lossless::{Deb822, Paragraph};
use std::str::FromStr;

pub struct C05;

#[derive(Debug, Clone)]
pub enum Op {
    Add,
    Insert(usize),
    Remove(usize),
    /// set a field on paragraph p (through the handle kept since it was obtained)
    Set(usize, String, String),
}

#[derive(Debug, Clone)]
pub enum Start {
    Empty,
    Parsed(String),
    Built(Vec<Vec<(String, String)>>),
    /// a parsed document after Deb822::wrap_and_sort(None, None): the live object that call returns (its tree has another
    /// shape than a parsed one: comments hang directly under the root)
    Wrapped(String),
}

pub struct Case {
    pub start: Start,
    pub ops: Vec<Op>,
}

type Model = Vec<Vec<(String, String)>>;

fn nonblank_lines(s: &str) -> Vec<&str> {
    s.split('\n').filter(|l| !l.is_empty()).collect()
}

pub fn run(case: &Case) -> CheckResult {
    let (mut d, mut model): (Deb822, Model) = match &case.start {
        Start::Empty => (Deb822::new(), vec![]),
        Start::Parsed(t) => match Deb822::from_str(t) {
            Ok(d) => (d, scan(t).model()),
            Err(e) => return fail("start-parses", format!("well-formed start document rejected: {:?}", e.to_string())),
        },
        Start::Built(paras) => (paras.iter().enumerate().map(|(i, p)| c04::build_para(p, i as u8)).collect(), paras.clone()),
        Start::Wrapped(t) => match Deb822::from_str(t) {
            Ok(d) => {
                let w = d.wrap_and_sort(None, None);
                let m: Model = w.paragraphs().map(|p| p.items().collect()).collect();
                // (that the reformatting keeps the content is C07's business; here the live result is the start state)
                (w, m)
            }
            Err(e) => return fail("start-parses", format!("well-formed start document rejected: {:?}", e.to_string())),
        },
    };
    let mut handles: Vec<Paragraph> = d.paragraphs().collect();
    ensure_eq!(d.paragraphs().map(|p| p.items().collect::<Vec<_>>()).collect::<Vec<_>>(), model, "start-model", "start state");
    for (i, op) in case.ops.iter().enumerate() {
        let old = d.to_string();
        let sc = scan(&old);
        if !sc.errors.is_empty() {
            return fail("harness-scan", format!("step {}: the harness scanner does not understand the printed text {:?}: {:?}", i, old, sc.errors));
        }
        let old_para_texts: Vec<String> = handles.iter().map(|h| h.to_string()).collect();
        // index of model paragraph among non-empty ones
        let ne_index = |model: &Model, p: usize| if model[p].is_empty() { None } else { Some(model[..p].iter().filter(|x| !x.is_empty()).count()) };
        let mut untouched: Vec<(usize, usize)> = vec![]; // (old handle index, new handle index)
        match op {
            Op::Add => {
                let h = d.add_paragraph();
                untouched = (0..model.len()).map(|k| (k, k)).collect();
                model.push(vec![]);
                handles.push(h);
            }
            Op::Insert(at) => {
                let h = d.insert_paragraph(*at);
                let pos = (*at).min(model.len());
                untouched = (0..model.len()).map(|k| (k, if k < pos { k } else { k + 1 })).collect();
                model.insert(pos, vec![]);
                handles.insert(pos, h);
            }
            Op::Remove(at) => {
                d.remove_paragraph(*at);
                if *at < model.len() {
                    untouched = (0..model.len()).filter(|k| k != at).map(|k| (k, if k < *at { k } else { k - 1 })).collect();
                    // expected non-blank lines
                    let new = d.to_string();
                    let oldl = nonblank_lines(&old);
                    let newl = nonblank_lines(&new);
                    let (fields_lines, interior_comments): (Vec<&str>, Vec<&str>) = match ne_index(&model, *at) {
                        Some(mi) => {
                            let p = &sc.paras[mi];
                            let ext = &old[p.start..p.end];
                            let all = nonblank_lines(ext);
                            (all.iter().filter(|l| !l.starts_with('#')).cloned().collect(), all.iter().filter(|l| l.starts_with('#')).cloned().collect())
                        }
                        None => (vec![], vec![]),
                    };
                    // every old line outside the removed paragraph must survive, in order; interior comments may or may not
                    let mut must: Vec<&str> = vec![];
                    {
                        // rebuild old lines with the extent removed
                        let (a, b) = match ne_index(&model, *at) {
                            Some(mi) => (sc.paras[mi].start, sc.paras[mi].end),
                            None => (0, 0),
                        };
                        must.extend(nonblank_lines(&old[..a]));
                        must.extend(nonblank_lines(&old[b..]));
                    }
                    let _ = (&fields_lines, &oldl);
                    // newl must equal `must` with some interior comments possibly interleaved at the removal point
                    let mut j = 0;
                    for l in &newl {
                        if j < must.len() && *l == must[j] {
                            j += 1;
                        } else if !interior_comments.contains(l) {
                            return fail("remove/lines", format!("step {}: remove_paragraph({}) produced an unexpected line {:?}\nold: {:?}\nnew: {:?}", i, at, l, old, new));
                        }
                    }
                    ensure!(j == must.len(), "remove/lines", "step {}: remove_paragraph({}) lost a line outside the removed paragraph (e.g. a comment)\nold: {:?}\nnew: {:?}", i, at, old, new);
                    model.remove(*at);
                    handles.remove(*at);
                } else {
                    untouched = (0..model.len()).map(|k| (k, k)).collect();
                    ensure_eq!(d.to_string(), old, "remove/out-of-range", "step {}: remove_paragraph({}) beyond the end changed the document", i, at);
                }
            }
            Op::Set(p, n, v) => {
                let mi = ne_index(&model, *p);
                handles[*p].set(n, v);
                untouched = (0..model.len()).filter(|k| k != p).map(|k| (k, k)).collect();
                let cop = c04::Op::Set(*p, n.clone(), v.clone());
                c04::apply_model(&mut model, &cop);
                c04::check_frame(&old, &d.to_string(), &sc, &cop, mi, i)?;
            }
        }
        let new = d.to_string();
        if matches!(op, Op::Add | Op::Insert(_)) {
            ensure_eq!(nonblank_lines(&new), nonblank_lines(&old), "insert/lines", "step {} ({:?}): adding an empty paragraph must only add blank lines\nold: {:?}\nnew: {:?}", i, op, old, new);
        }
        // list model through the document and through the kept handles
        let live: Model = d.paragraphs().map(|p| p.items().collect()).collect();
        ensure_eq!(live, model, "live-model", "step {} ({:?}): paragraphs() differ from the list model (text {:?})", i, op, new);
        for (k, h) in handles.iter().enumerate() {
            ensure_eq!(h.items().collect::<Vec<_>>(), model[k], "handle-model", "step {} ({:?}): kept handle of paragraph {}", i, op, k);
        }
        for (o, n) in untouched {
            // the only tolerated change: a paragraph ending the document without a newline gets its line terminated
            let now = handles[n].to_string();
            let before = &old_para_texts[o];
            ensure!(now == *before || (!before.ends_with('\n') && now == format!("{}\n", before)), "other-paragraph-text", "step {} ({:?}): text of untouched paragraph {} changed: {:?} -> {:?}", i, op, o, before, now);
        }
        // all comment lines of the old text outside a removed paragraph are still there (checked above for Remove)
        if !matches!(op, Op::Remove(_)) {
            let oc: Vec<&str> = old.split('\n').filter(|l| l.starts_with('#')).collect();
            let nc: Vec<&str> = new.split('\n').filter(|l| l.starts_with('#')).collect();
            ensure_eq!(nc, oc, "comments-preserved", "step {} ({:?}): comment lines changed", i, op);
        }
        match Deb822::from_str(&new) {
            Err(e) => return fail("reread-accepts", format!("step {} ({:?}): the printed document {:?} is rejected: {:?}", i, op, new, e.to_string())),
            Ok(r) => {
                let got: Model = r.paragraphs().map(|p| p.items().collect()).collect();
                ensure_eq!(got, c04::nonempty(&model), "reread-content", "step {} ({:?}): re-reading the printed document {:?} (paragraphs must stay separated by a blank line)", i, op, new);
            }
        }
    }
    Ok(())
}

const LAYOUTS: &[&str] = &[
    "@empty",
    "A: 1\n",
    "A: 1",
    "A: 1\n\nB: 2\n",
    "# top\n\nA: 1\n\n# mid\nB: 2\n\n# end\n",
    "\n\nA: 1\n\n\n\nB: 2\n\n\n",
    "A: 1\n\nB: 2",
    "# c\nA: 1\n# t\n\nB: 2\n c\n# t2\n",
    "@built",
    "A: 1\n\nB: 2\n\nC: 3\n",
];

/// (operation, fill the new paragraph at once?)
fn enum_ops() -> Vec<(Op, bool)> {
    let mut v = vec![(Op::Add, true), (Op::Add, false)];
    for i in 0..4 {
        v.push((Op::Insert(i), true));
        v.push((Op::Insert(i), false));
    }
    for i in 0..4 {
        v.push((Op::Remove(i), true));
    }
    v
}
const NE: u64 = 14;
const HIST: u64 = 1 + NE + NE * NE + NE * NE * NE;

impl PropImpl for C05 {
    type Case = Case;
    fn id(&self) -> &'static str {
        "C05"
    }
    fn rule(&self) -> String {
        "cases are histories of 1-8 add/insert(i)/remove(i) steps (i in 0..=len+2, in and out of range) interleaved with set on any paragraph; add/insert is followed by a set on the returned handle in 2 of 3 cases, otherwise the paragraph stays empty until a later set; \
         start: Deb822::new(), Deb822::from_iter, or a strictly parsed generated document (leading/trailing comments, several empty lines, missing final newline). After every step: paragraphs() = \
         Vec model, kept handles agree, untouched paragraphs print identically, comment lines outside a removed paragraph survive, strict re-read gives the same non-empty paragraphs in order. \
         (E) all histories of <= 3 structural operations (14 ops: add, insert 0..3 - each either filled at once with set X=k or left empty and filled after the last structural operation - and remove 0..3), on 10 start layouts. Non-trivial: an in-range insert/remove on a \
         document with >= 2 paragraphs or with leading/trailing trivia.".into()
    }
    fn expected_labels(&self) -> Vec<&'static str> {
        vec!["op:add", "op:insert-in-range", "op:insert-at-end", "op:insert-beyond-end", "op:remove-in-range", "op:remove-beyond-end", "op:set", "add/insert-while-a-paragraph-is-still-empty", "add/insert-while-every-paragraph-is-empty", "set-fills-an-empty-paragraph-that-is-not-the-last", "start:empty", "start:built", "start:parsed", "start:result-of-wrap-and-sort", "start:leading-trivia", "start:trailing-trivia", "start:no-final-newline"]
    }
    fn budget(&self, tier: Tier) -> Budget {
        Budget { cases_per_lane: if tier == Tier::Quick { 30000 } else { 120000 }, tape_max: 800, cpu_s: 10 }
    }
    fn spaces(&self, _tier: Tier) -> Vec<Space> {
        vec![Space { name: "all histories of <= 3 structural operations on 10 layouts".into(), size: HIST * LAYOUTS.len() as u64, exhaustive: true }]
    }
    fn from_enum(&self, _ctx: &mut Ctx, _tier: Tier, _space: usize, index: u64) -> Case {
        let li = (index / HIST) as usize;
        let mut h = index % HIST;
        let start = match LAYOUTS[li] {
            "@empty" => Start::Empty,
            "@built" => Start::Built(vec![vec![("A".into(), "1".into())], vec![("B".into(), "2\n3".into()), ("C".into(), "4".into())]]),
            t => Start::Parsed(t.to_string()),
        };
        let len = if h < 1 { 0 } else if h < 1 + NE { 1 } else if h < 1 + NE + NE * NE { 2 } else { 3 };
        h -= [0, 1, 1 + NE, 1 + NE + NE * NE][len];
        let all = enum_ops();
        let mut ops = vec![];
        // track the length to know where the new paragraph lands
        let mut n = match &start {
            Start::Empty => 0,
            Start::Built(p) => p.len(),
            Start::Parsed(t) | Start::Wrapped(t) => scan(t).paras.len(),
        };
        // positions of paragraphs left empty, to be filled after the structural operations
        let mut empty: Vec<usize> = vec![];
        for k in 0..len {
            let (op, fill) = all[(h % NE) as usize].clone();
            h /= NE;
            match &op {
                Op::Add => {
                    ops.push(op);
                    if fill {
                        ops.push(Op::Set(n, "X".into(), format!("{}", k)));
                    } else {
                        empty.push(n);
                    }
                    n += 1;
                }
                Op::Insert(i) => {
                    let pos = (*i).min(n);
                    ops.push(op.clone());
                    for e in empty.iter_mut() {
                        if *e >= pos {
                            *e += 1;
                        }
                    }
                    if fill {
                        ops.push(Op::Set(pos, "X".into(), format!("{}", k)));
                    } else {
                        empty.push(pos);
                    }
                    n += 1;
                }
                Op::Remove(i) => {
                    if *i < n {
                        n -= 1;
                        empty.retain(|e| e != i);
                        for e in empty.iter_mut() {
                            if *e > *i {
                                *e -= 1;
                            }
                        }
                    }
                    ops.push(op);
                }
                _ => {}
            }
        }
        empty.sort();
        for (k, e) in empty.iter().enumerate() {
            ops.push(Op::Set(*e, "Y".into(), format!("{}", k)));
        }
        Case { start, ops }
    }
    fn decode(&self, _ctx: &mut Ctx, t: &mut Tape) -> Case {
        let (start, mut n) = match t.below(4) {
            0 => (Start::Empty, 0),
            1 => {
                let mut paras = vec![];
                while t.more(paras.len(), 1, 3, 1, 2) {
                    let mut p = vec![];
                    while t.more(p.len(), 1, 3, 1, 2) {
                        p.push((doc::gen_name(t, true), gen_value(t)));
                    }
                    paras.push(p);
                }
                let n = paras.len();
                (Start::Built(paras), n)
            }
            _ => {
                let o = doc::DocOpts { min_paras: 0, max_paras: 3, max_fields: 3, max_lines: 3, ..Default::default() };
                let d = doc::gen_doc(t, &o);
                let n = d.paras.len();
                if t.chance(1, 5) {
                    (Start::Wrapped(d.render().text), n)
                } else {
                    (Start::Parsed(d.render().text), n)
                }
            }
        };
        let mut ops = vec![];
        let mut steps = 0;
        while t.more(steps, 1, 8, 3, 4) {
            steps += 1;
            match t.below(if n == 0 { 2 } else { 4 }) {
                0 => {
                    ops.push(Op::Add);
                    // the new paragraph is usually filled at once; sometimes it stays empty for now (a later set may fill it)
                    if t.chance(2, 3) {
                        ops.push(Op::Set(n, doc::gen_name(t, true), gen_value(t)));
                    }
                    n += 1;
                }
                1 => {
                    let i = t.below(n + 3);
                    ops.push(Op::Insert(i));
                    if t.chance(2, 3) {
                        ops.push(Op::Set(i.min(n), doc::gen_name(t, true), gen_value(t)));
                    }
                    n += 1;
                }
                2 => {
                    let i = t.below(n + 3);
                    ops.push(Op::Remove(i));
                    if i < n {
                        n -= 1;
                    }
                }
                _ => {
                    let p = t.below(n);
                    ops.push(Op::Set(p, doc::gen_name(t, true), gen_value(t)));
                }
            }
        }
        Case { start, ops }
    }
    fn classify(&self, ctx: &mut Ctx, case: &Case) {
        ctx.set_hash(&(format!("{:?}", case.start), format!("{:?}", case.ops)));
        let (mut n, trivia) = match &case.start {
            Start::Empty => {
                ctx.label("start:empty");
                (0, false)
            }
            Start::Built(p) => {
                ctx.label("start:built");
                (p.len(), false)
            }
            Start::Parsed(t) | Start::Wrapped(t) => {
                ctx.label(if matches!(case.start, Start::Wrapped(_)) { "start:result-of-wrap-and-sort" } else { "start:parsed" });
                let sc = scan(t);
                let lead = t.starts_with('#') || t.starts_with('\n');
                let trail = t.ends_with("\n\n") || t.rsplit('\n').find(|l| !l.is_empty()).map(|l| l.starts_with('#')).unwrap_or(false);
                ctx.label_if(lead, "start:leading-trivia");
                ctx.label_if(trail, "start:trailing-trivia");
                ctx.label_if(!t.ends_with('\n') && !t.is_empty(), "start:no-final-newline");
                (sc.paras.len(), lead || trail)
            }
        };
        let mut nt = false;
        let mut filled: Vec<bool> = vec![true; n];
        for op in &case.ops {
            match op {
                Op::Add | Op::Insert(_) => {
                    ctx.label_if(filled.iter().any(|f| !f), "add/insert-while-a-paragraph-is-still-empty");
                    ctx.label_if(!filled.is_empty() && filled.iter().all(|f| !f), "add/insert-while-every-paragraph-is-empty");
                }
                _ => {}
            }
            match op {
                Op::Add => filled.push(false),
                Op::Insert(i) => filled.insert((*i).min(filled.len()), false),
                Op::Remove(i) => {
                    if *i < filled.len() {
                        filled.remove(*i);
                    }
                }
                Op::Set(p, _, _) => {
                    ctx.label_if(*p + 1 < filled.len() && !filled[*p], "set-fills-an-empty-paragraph-that-is-not-the-last");
                    filled[*p] = true;
                }
            }
            match op {
                Op::Add => {
                    ctx.label("op:add");
                    n += 1;
                }
                Op::Insert(i) => {
                    ctx.label(if *i < n { "op:insert-in-range" } else if *i == n { "op:insert-at-end" } else { "op:insert-beyond-end" });
                    if *i < n && (n >= 2 || trivia) {
                        nt = true;
                    }
                    n += 1;
                }
                Op::Remove(i) => {
                    ctx.label(if *i < n { "op:remove-in-range" } else { "op:remove-beyond-end" });
                    if *i < n {
                        if n >= 2 || trivia {
                            nt = true;
                        }
                        n -= 1;
                    }
                }
                Op::Set(..) => ctx.label("op:set"),
            }
        }
        ctx.nontrivial = nt;
    }
    fn check(&self, _ctx: &mut Ctx, case: &Case) -> CheckResult {
        run(case)
    }
    fn render(&self, case: &Case) -> String {
        format!("start {:?}\nhistory {:?}", case.start, case.ops)
    }
}
