//! C09 Lossless relationship-field reader reproduces every input byte-for-byte.
use crate::gen::{rel, text};
use crate::tape::Tape;
use crate::{ensure, ensure_eq, Budget, CheckResult, Ctx, PropImpl, Space, Tier};
use debian_control::lossless::relations::{Entry, Relation, Relations};
use std::str::FromStr;

pub struct C09;

pub struct Case {
    pub text: String,
    pub origin: &'static str,
}

pub const ALPHABET: &[&str] = &["a", "1", ":", "|", ",", "(", ")", "[", "]", "!", "<", ">", "=", "$", "{", "}", " ", "\n", "@"];

pub const WEIGHTED: &[(u32, &str)] = &[
    (20, "a"), (6, "1"), (4, "b"), (5, ":"), (6, "|"), (8, ","), (6, "("), (6, ")"), (5, "["), (5, "]"), (4, "!"), (6, "<"), (6, ">"), (5, "="),
    (4, "$"), (4, "{"), (4, "}"), (12, " "), (4, "\n"), (2, "\t"), (2, "\r"), (1, "@"), (1, "é"), (1, "€"), (1, "𝄞"), (1, "-"), (1, "."), (1, "+"), (1, "~"),
    (1, "#"), (1, "\u{0}"), (1, "\u{a0}"),
];

fn enum_len(tier: Tier) -> u32 {
    match tier {
        Tier::Quick => 5,
        Tier::Thorough => 6,
    }
}

pub fn check_text(ctx: &mut Ctx, s: &str) -> CheckResult {
    let mut errs_false = vec![];
    for allow in [false, true] {
        let (r, errs) = Relations::parse_relaxed(s, allow);
        ensure_eq!(r.to_string(), s, if allow { "relaxed-roundtrip-substvars-allowed" } else { "relaxed-roundtrip" }, "parse_relaxed(s, {}).0.to_string() != s", allow);
        if !allow {
            errs_false = errs;
        } else {
            ctx.label_if(!errs.is_empty(), "errors-with-substvars-allowed");
        }
    }
    let ntokens = s.chars().count();
    let has_construct = s.contains(|c| "[]<>${}".contains(c));
    ctx.nontrivial = ntokens >= 3 && (!errs_false.is_empty() || has_construct);
    ctx.label_if(!errs_false.is_empty(), "tolerant-reader-reports-errors");
    ctx.label_if(errs_false.is_empty(), "error-free");
    let strict = Relations::from_str(s);
    ensure_eq!(strict.is_ok(), errs_false.is_empty(), "strict-iff-no-errors", "Relations::from_str(s).is_ok() vs parse_relaxed(s,false).1.is_empty() (errors {:?})", errs_false);
    if let Ok(r) = &strict {
        ensure_eq!(r.to_string(), s, "strict-roundtrip", "Relations::from_str(s)?.to_string() != s");
    }
    if let Ok(e) = Entry::from_str(s) {
        ctx.label("entry-reader-accepts");
        let p = e.to_string();
        ensure!(s.contains(&p), "entry-prints-substring", "Entry::from_str(s) prints {:?}, not a substring of the input", p);
        ensure!(strict.is_ok(), "entry-accepts-implies-field-accepts", "Entry::from_str accepted a text the strict field reader rejects");
    }
    if let Ok(r) = Relation::from_str(s) {
        ctx.label("relation-reader-accepts");
        let p = r.to_string();
        ensure!(s.contains(&p), "relation-prints-substring", "Relation::from_str(s) prints {:?}, not a substring of the input", p);
    }
    Ok(())
}

impl PropImpl for C09 {
    type Case = Case;
    fn id(&self) -> &'static str {
        "C09"
    }
    fn rule(&self) -> String {
        "cases are texts: (E) every string of length <= L over the 19 relation token symbols (a 1 : | , ( ) [ ] ! < > = $ { } SP LF @; L=5 quick, 6 thorough), (R) random token soup over a \
         weighted 32-symbol alphabet incl. tab, CR and multi-byte characters, (M) rendered well-formed fields (all layouts, newlines anywhere), every kind of prefix of them and 1-6 \
         character edits. Non-trivial: >= 3 characters and (the tolerant reader reports an error or a bracket/angle/substvar character occurs); distinct by text hash.".into()
    }
    fn expected_labels(&self) -> Vec<&'static str> {
        vec!["has:${", "has:unterminated-[", "has:unterminated-<", "has:unterminated-(", "has:unterminated-{", "has:newline", "has:non-ascii", "origin:prefix-of-field", "origin:mutated-field", "entry-reader-accepts", "relation-reader-accepts"]
    }
    fn budget(&self, tier: Tier) -> Budget {
        Budget { cases_per_lane: if tier == Tier::Quick { 20000 } else { 100_000 }, tape_max: 500, cpu_s: 10 }
    }
    fn spaces(&self, tier: Tier) -> Vec<Space> {
        let l = enum_len(tier);
        vec![Space { name: format!("all strings of length <= {} over 19 relation token symbols", l), size: text::space_size(ALPHABET.len() as u64, l), exhaustive: true }]
    }
    fn from_enum(&self, _ctx: &mut Ctx, tier: Tier, _space: usize, index: u64) -> Case {
        Case { text: text::nth_string(ALPHABET, enum_len(tier), index), origin: "enum" }
    }
    fn from_text(&self, _ctx: &mut Ctx, t: &str) -> Option<Case> {
        Some(Case { text: t.to_string(), origin: "text" })
    }
    fn decode(&self, ctx: &mut Ctx, t: &mut Tape) -> Case {
        let huge = t.chance(1, 40000);
        if huge && !ctx.light {
            // a field of up to a megabyte (parsers with step counters, recursion or quadratic behaviour); larger inputs do not fit the per-case budgets reliably
            let unit = *t.pick(&["libfoo-dev (>= 1:2.0-1~) [amd64 !i386] <!nocheck>, ", "a | b, ", "x (= 1), ${misc:Depends}, ", "@@ "]);
            let target = *t.pick(&[256usize, 512, 1024]) * 1024;
            return Case { text: unit.repeat(target / unit.len()), origin: "huge" };
        }
        match t.below(3) {
            0 => {
                let text = text::weighted_text(t, WEIGHTED, 300);
                ctx.dup_of_enum = text::in_space(ALPHABET, 5, &text);
                Case { text, origin: "random" }
            }
            k => {
                let o = rel::RelOpts { max_layout: rel::Layout::L3, ..Default::default() };
                let (_, base, _) = rel::gen_field(t, &o);
                let text = if k == 1 {
                    // a prefix (this is how unterminated groups arise) or the field itself
                    let chars: Vec<char> = base.chars().collect();
                    let cut = if t.chance(1, 4) { chars.len() } else { t.below(chars.len() + 1) };
                    chars[..cut].iter().collect()
                } else {
                    text::mutate(t, &base, WEIGHTED, 6)
                };
                Case { text, origin: if k == 1 { "prefix-of-field" } else { "mutated-field" } }
            }
        }
    }
    fn classify(&self, ctx: &mut Ctx, case: &Case) {
        ctx.set_hash(&case.text);
        ctx.label(match case.origin {
            "enum" => "origin:enum",
            "prefix-of-field" => "origin:prefix-of-field",
            "mutated-field" => "origin:mutated-field",
            "text" => "origin:text",
            "huge" => "origin:field-of-up-to-a-megabyte",
            _ => "origin:random",
        });
        let s = &case.text;
        ctx.label_if(s.contains("${"), "has:${");
        ctx.label_if(s.contains('[') && !s.contains(']'), "has:unterminated-[");
        ctx.label_if(s.contains('<') && !s.contains('>'), "has:unterminated-<");
        ctx.label_if(s.contains('(') && !s.contains(')'), "has:unterminated-(");
        ctx.label_if(s.contains('{') && !s.contains('}'), "has:unterminated-{");
        ctx.label_if(s.contains('\n'), "has:newline");
        ctx.label_if(!s.is_ascii(), "has:non-ascii");
    }
    fn check(&self, ctx: &mut Ctx, case: &Case) -> CheckResult {
        check_text(ctx, &case.text)
    }
    fn render(&self, case: &Case) -> String {
        format!("{:?}", case.text)
    }
}
