//! C10 Well-formed relationship fields are read exactly as written, by both readers.
use crate::gen::rel::{self, Item, Layout, Op, Rel, RelField, RelOpts};
use crate::tape::Tape;
use crate::{ensure, ensure_eq, fail, Budget, CheckResult, Ctx, Failure, PropImpl, Space, Tier};
use debian_control::lossless::relations as ll;
use debian_control::lossy;
use debian_control::relations::{BuildProfile, VersionConstraint};
use std::str::FromStr;

pub struct C10;

pub struct Case {
    pub field: RelField,
    pub text: String,
    pub layout: &'static str,
}

pub fn op_of(vc: &VersionConstraint) -> Op {
    match vc {
        VersionConstraint::LessThan => Op::Lt,
        VersionConstraint::LessThanEqual => Op::Le,
        VersionConstraint::Equal => Op::Eq,
        VersionConstraint::GreaterThanEqual => Op::Ge,
        VersionConstraint::GreaterThan => Op::Gt,
    }
}
pub fn vc_of(op: Op) -> VersionConstraint {
    match op {
        Op::Lt => VersionConstraint::LessThan,
        Op::Le => VersionConstraint::LessThanEqual,
        Op::Eq => VersionConstraint::Equal,
        Op::Ge => VersionConstraint::GreaterThanEqual,
        Op::Gt => VersionConstraint::GreaterThan,
    }
}

pub fn profiles_model(p: &[Vec<BuildProfile>]) -> Vec<Vec<(bool, String)>> {
    p.iter()
        .map(|g| {
            g.iter()
                .map(|t| match t {
                    BuildProfile::Enabled(s) => (false, s.clone()),
                    BuildProfile::Disabled(s) => (true, s.clone()),
                })
                .collect()
        })
        .collect()
}

/// Architecture terms as the String-typed API can expose them: a negated architecture is "!name".
pub fn archs_model(a: &[String]) -> Vec<(bool, String)> {
    a.iter().map(|s| match s.strip_prefix('!') { Some(n) => (true, n.to_string()), None => (false, s.clone()) }).collect()
}

/// Read a lossless relation back into the harness model.
pub fn lossless_rel(r: &ll::Relation) -> Result<Rel, Failure> {
    let version = match r.version() {
        None => None,
        Some((vc, v)) => {
            // the Version value must be the structured reading of the text it prints (epoch / upstream / revision)
            let text = v.to_string();
            if let Ok(w) = debversion::Version::from_str(&text) {
                if (w.epoch, &w.upstream_version, &w.debian_revision) != (v.epoch, &v.upstream_version, &v.debian_revision) {
                    return Err(Failure { assertion: "version-structure".into(), message: format!("version() of {:?} is {:?}, which prints {:?}, which debversion reads as {:?}", r.to_string(), v, text, w) });
                }
            }
            Some((op_of(&vc), text))
        }
    };
    Ok(Rel {
        name: r.name(),
        archqual: r.archqual(),
        version,
        archs: r.architectures().map(|a| archs_model(&a.collect::<Vec<_>>())),
        profiles: profiles_model(&r.profiles().collect::<Vec<_>>()),
    })
}

pub fn lossless_entries(r: &ll::Relations) -> Result<Vec<Vec<Rel>>, Failure> {
    r.entries().map(|e| e.relations().map(|x| lossless_rel(&x)).collect::<Result<Vec<_>, _>>()).collect()
}

pub fn lossy_rel(r: &lossy::Relation) -> Rel {
    Rel {
        name: r.name.clone(),
        archqual: r.archqual.clone(),
        version: r.version.as_ref().map(|(vc, v)| (op_of(vc), v.to_string())),
        archs: r.architectures.as_ref().map(|a| archs_model(a)),
        profiles: profiles_model(&r.profiles),
    }
}

/// Compare versions both as text and as parsed Version values.
pub fn same_rel(got: &Rel, want: &Rel) -> bool {
    let mut g = got.clone();
    let mut w = want.clone();
    let vg = g.version.take();
    let vw = w.version.take();
    if g != w {
        return false;
    }
    match (vg, vw) {
        (None, None) => true,
        (Some((og, sg)), Some((ow, sw))) => og == ow && sg == sw && debversion::Version::from_str(&sg).ok() == debversion::Version::from_str(&sw).ok(),
        _ => false,
    }
}

pub fn same_entries(got: &[Vec<Rel>], want: &[Vec<Rel>]) -> bool {
    got.len() == want.len() && got.iter().zip(want).all(|(a, b)| a.len() == b.len() && a.iter().zip(b).all(|(x, y)| same_rel(x, y)))
}

pub fn check_field(field: &RelField, text: &str) -> CheckResult {
    let want = field.entries();
    // lossless, substvars allowed
    let (r, errs) = ll::Relations::parse_relaxed(text, true);
    ensure!(errs.is_empty(), "lossless-accepts", "the lossless reader reports errors for a well-formed field {:?}: {:?}", text, errs);
    ensure_eq!(r.to_string(), text, "lossless-roundtrip", "printing");
    let got = lossless_entries(&r)?;
    ensure!(same_entries(&got, &want), "lossless-structure", "lossless reader exposes {:?}\nwritten: {:?}\ntext {:?}", got, want, text);
    ensure_eq!(r.substvars().collect::<Vec<_>>(), field.substvars(), "lossless-substvars", "substvars() of {:?}", text);
    ensure_eq!(r.len(), want.len(), "lossless-len", "len()");
    ensure_eq!(r.is_empty(), want.is_empty(), "lossless-is-empty", "is_empty()");
    if !field.has_substvar() {
        // strict lossless reader and the lossy reader accept the same field
        match ll::Relations::from_str(text) {
            Err(e) => return fail("lossless-strict-accepts", format!("Relations::from_str rejects the well-formed field {:?}: {}", text, e)),
            Ok(r2) => ensure!(same_entries(&lossless_entries(&r2)?, &want), "lossless-strict-structure", "strict lossless reader structure for {:?}", text),
        }
        match lossy::Relations::from_str(text) {
            Err(e) => return fail("lossy-accepts", format!("the lossy reader rejects the well-formed field {:?}: {}", text, e)),
            Ok(l) => {
                let got: Vec<Vec<Rel>> = l.0.iter().map(|e| e.iter().map(lossy_rel).collect()).collect();
                ensure!(same_entries(&got, &want), "lossy-structure", "lossy reader yields {:?}\nwritten: {:?}\ntext {:?}", got, want, text);
            }
        }
        // single-entry / single-relation readers on fields of that shape
        if want.len() == 1 && !field.has_empty() {
            match ll::Entry::from_str(text) {
                Err(e) => return fail("lossless-entry-accepts", format!("Entry::from_str rejects {:?}: {}", text, e)),
                Ok(e) => {
                    let got: Vec<Rel> = e.relations().map(|x| lossless_rel(&x)).collect::<Result<_, _>>()?;
                    ensure!(same_entries(&[got.clone()], &want), "lossless-entry-structure", "Entry::from_str structure {:?} for {:?}", got, text);
                }
            }
            if want[0].len() == 1 {
                match ll::Relation::from_str(text) {
                    Err(e) => return fail("lossless-relation-accepts", format!("Relation::from_str rejects {:?}: {}", text, e)),
                    Ok(x) => ensure!(same_rel(&lossless_rel(&x)?, &want[0][0]), "lossless-relation-structure", "Relation::from_str structure for {:?}", text),
                }
                // the lossy single-relation reader does not take surrounding whitespace (the field reader trims it)
                match lossy::Relation::from_str(text.trim()) {
                    Err(e) => return fail("lossy-relation-accepts", format!("lossy::Relation::from_str rejects {:?}: {}", text.trim(), e)),
                    Ok(x) => ensure!(same_rel(&lossy_rel(&x), &want[0][0]), "lossy-relation-structure", "lossy::Relation::from_str structure {:?} for {:?}", x, text),
                }
            }
        }
    }
    Ok(())
}

// ---- enumeration: one relation, every optional-part subset, in three fixed layouts and three contexts
const E_VERSIONS: [&str; 3] = ["1", "1:2.0~rc1-1", "0.5+b"];

fn enum_case(index: u64) -> Case {
    let mut i = index;
    let mut take = |n: u64| {
        let r = i % n;
        i /= n;
        r as usize
    };
    let name = ["a", "lib-x2.0+"][take(2)];
    let archqual = [None, Some("any")][take(2)];
    let v = take(16);
    let version = if v == 0 { None } else { Some((Op::ALL[(v - 1) % 5], E_VERSIONS[(v - 1) / 5].to_string())) };
    let archs = [None, Some(vec![(false, "amd64".to_string())]), Some(vec![(true, "amd64".to_string()), (true, "hurd-i386".to_string())])][take(3)].clone();
    let profiles = [vec![], vec![vec![(false, "a".to_string())]], vec![vec![(true, "a".to_string()), (false, "b".to_string())], vec![(false, "c".to_string())]]][take(3)].clone();
    let style = take(3);
    let context = take(3);
    let r = Rel { name: name.to_string(), archqual: archqual.map(|s| s.to_string()), version, archs, profiles };
    let text_r = match style {
        0 => r.canonical(),
        1 => {
            // doubled / tab whitespace everywhere whitespace is allowed
            let mut s = r.name.clone();
            if let Some(q) = &r.archqual {
                s.push(':');
                s.push_str(q);
            }
            if let Some((op, v)) = &r.version {
                s.push_str(&format!("  (  {}\t{}  )", op.text(), v));
            }
            let terms = |g: &[(bool, String)]| g.iter().map(|(n, a)| format!("{}{}", if *n { "!" } else { "" }, a)).collect::<Vec<_>>().join("  ");
            if let Some(a) = &r.archs {
                s.push_str(&format!("\t[ {} ]", terms(a)));
            }
            for g in &r.profiles {
                s.push_str(&format!("  <\t{} >", terms(g)));
            }
            s
        }
        _ => {
            // no optional whitespace at all
            let mut s = r.name.clone();
            if let Some(q) = &r.archqual {
                s.push(':');
                s.push_str(q);
            }
            if let Some((op, v)) = &r.version {
                s.push_str(&format!("({}{})", op.text(), v));
            }
            let terms = |g: &[(bool, String)]| g.iter().map(|(n, a)| format!("{}{}", if *n { "!" } else { "" }, a)).collect::<Vec<_>>().join(" ");
            if let Some(a) = &r.archs {
                s.push_str(&format!("[{}]", terms(a)));
            }
            for g in &r.profiles {
                s.push_str(&format!("<{}>", terms(g)));
            }
            s
        }
    };
    let (field, text) = match context {
        0 => (RelField { items: vec![Item::Entry(vec![r])] }, text_r),
        1 => (RelField { items: vec![Item::Entry(vec![Rel::simple("x"), r])] }, format!("x | {}", text_r)),
        _ => (RelField { items: vec![Item::Entry(vec![r]), Item::Entry(vec![Rel::simple("y")]), Item::Empty] }, format!("{},\n y,", text_r)),
    };
    Case { field, text, layout: ["E-canonical", "E-wide", "E-tight"][style] }
}
const ENUM_SIZE: u64 = 2 * 2 * 16 * 3 * 3 * 3 * 3;

impl PropImpl for C10 {
    type Case = Case;
    fn id(&self) -> &'static str {
        "C10"
    }
    fn rule(&self) -> String {
        "cases are relationship fields rendered from a known model: 0-5 items (entries of 1-3 alternatives, substitution variables, empty entries incl. leading/trailing comma); every optional part \
         toggled independently (archqual, (op version) with all five operators and versions with epochs/'~'/revisions, [archs] all-negated or not, 1-3 <profile groups> of 1-3 possibly negated terms); \
         layouts L0 canonical, L1 spaces/tabs/newlines around ',' and '|', L2 spaces/tabs between the tokens of a relation (incl. before ')'); (E) one relation x all part subsets x 5 operators x \
         3 versions x 3 fixed layouts x 3 contexts (5184). Non-trivial: >= 2 entries or alternatives, or a relation with >= 2 optional parts. Distinct by text hash.".into()
    }
    fn expected_labels(&self) -> Vec<&'static str> {
        vec!["layout:L0", "layout:L1", "layout:L2", "has:substvar", "has:empty-entry", "has:alternatives", "part:archqual", "part:version", "part:epoch", "part:tilde", "part:hyphen-in-upstream-version", "part:epoch+hyphen-in-upstream-version", "part:architectures", "part:negated-architecture", "part:profiles", "part:several-profile-groups", "part:multi-term-profile-group", "op:<<", "op:<=", "op:=", "op:>=", "op:>>", "has:newline", "has:tab", "size:300-or-more-entries"]
    }
    fn budget(&self, tier: Tier) -> Budget {
        Budget { cases_per_lane: if tier == Tier::Quick { 45000 } else { 180000 }, tape_max: 500, cpu_s: 10 }
    }
    fn spaces(&self, _tier: Tier) -> Vec<Space> {
        vec![Space { name: "one relation: parts x operators x versions x layouts x contexts".into(), size: ENUM_SIZE, exhaustive: true }]
    }
    fn from_enum(&self, _ctx: &mut Ctx, _tier: Tier, _space: usize, index: u64) -> Case {
        enum_case(index)
    }
    fn decode(&self, ctx: &mut Ctx, t: &mut Tape) -> Case {
        let o = RelOpts { max_layout: Layout::L2, ..Default::default() };
        let (mut field, mut text, layout) = rel::gen_field(t, &o);
        let big = t.chance(1, 400);
        if big && !ctx.light && field.items.iter().any(|i| matches!(i, rel::Item::Entry(_))) {
            // a very long field (hundreds to thousands of entries, tens of kilobytes): the same items again and again
            let n = *t.pick(&[300usize, 1600, 3000]);
            let base: Vec<rel::Item> = field.items.iter().filter(|i| matches!(i, rel::Item::Entry(_) | rel::Item::Substvar(_))).cloned().collect();
            let mut items = vec![];
            while items.len() < n {
                items.extend(base.iter().cloned());
            }
            field.items = items;
            text = rel::render_field(t, &field, layout, &o);
        }
        Case { field, text, layout: match layout { Layout::L0 => "L0", Layout::L1 => "L1", Layout::L2 => "L2", Layout::L3 => "L3" } }
    }
    fn classify(&self, ctx: &mut Ctx, case: &Case) {
        ctx.set_hash(&case.text);
        let f = &case.field;
        let entries = f.entries();
        ctx.label(match case.layout { "L0" => "layout:L0", "L1" => "layout:L1", "L2" => "layout:L2", "E-canonical" => "layout:E-canonical", "E-wide" => "layout:E-wide", _ => "layout:E-tight" });
        ctx.label_if(f.has_substvar(), "has:substvar");
        ctx.label_if(entries.len() >= 300, "size:300-or-more-entries");
        ctx.label_if(f.has_empty(), "has:empty-entry");
        ctx.label_if(entries.iter().any(|e| e.len() > 1), "has:alternatives");
        for r in f.rels() {
            ctx.label_if(r.archqual.is_some(), "part:archqual");
            ctx.label_if(r.version.is_some(), "part:version");
            ctx.label_if(r.version.as_ref().map(|v| v.1.contains(':')).unwrap_or(false), "part:epoch");
            ctx.label_if(r.version.as_ref().map(|v| v.1.contains('~')).unwrap_or(false), "part:tilde");
            ctx.label_if(r.version.as_ref().map(|v| v.1.matches('-').count() >= 2).unwrap_or(false), "part:hyphen-in-upstream-version");
            ctx.label_if(r.version.as_ref().map(|v| v.1.matches('-').count() >= 2 && v.1.contains(':')).unwrap_or(false), "part:epoch+hyphen-in-upstream-version");
            ctx.label_if(r.archs.is_some(), "part:architectures");
            ctx.label_if(r.archs.as_ref().map(|a| a.iter().any(|x| x.0)).unwrap_or(false), "part:negated-architecture");
            ctx.label_if(!r.profiles.is_empty(), "part:profiles");
            ctx.label_if(r.profiles.len() > 1, "part:several-profile-groups");
            ctx.label_if(r.profiles.iter().any(|g| g.len() > 1), "part:multi-term-profile-group");
            if let Some((op, _)) = &r.version {
                ctx.label(match op { Op::Lt => "op:<<", Op::Le => "op:<=", Op::Eq => "op:=", Op::Ge => "op:>=", Op::Gt => "op:>>" });
            }
        }
        ctx.label_if(case.text.contains('\n'), "has:newline");
        ctx.label_if(case.text.contains('\t'), "has:tab");
        ctx.nontrivial = entries.len() >= 2 || entries.iter().any(|e| e.len() >= 2) || f.rels().any(|r| r.optional_parts() >= 2);
    }
    fn check(&self, _ctx: &mut Ctx, case: &Case) -> CheckResult {
        check_field(&case.field, &case.text)
    }
    fn render(&self, case: &Case) -> String {
        format!("field text {:?}\nmodel {:?}", case.text, case.field)
    }
}
