//! C18 Typed field values round-trip through their text form.
use crate::tape::Tape;
use crate::{ensure, ensure_eq, fail, Budget, CheckResult, Ctx, PropImpl, Space, Tier};
use apt_sources::signature::Signature;
use apt_sources::{RepositoryType, YesNoForce};
use debian_control::changes::File as ChangesFile;
use debian_control::fields::{Md5Checksum, MultiArch, PackageListEntry, Priority, Sha1Checksum, Sha256Checksum, Sha512Checksum, Urgency};
use debian_control::relations::{BuildProfile, VersionConstraint};
use debian_control::vcs::{ParsedVcs, Vcs};
use debian_copyright::License;
use dep3::{AppliedUpstream, Forwarded, Origin, OriginCategory};
use std::fmt::Debug;
use std::str::FromStr;

pub struct C18;

#[derive(Debug, Clone)]
pub enum Case {
    /// (type name, keyword) for enumerations: must round-trip
    Keyword(&'static str, String),
    /// (type name, string whose lower-case form is not a keyword): must be rejected
    Reject(&'static str, String),
    Checksum(u8, String, usize, String),
    PackageList { package: String, ptype: String, section: String, priority: String, extra: Vec<(String, String)> },
    ChangesFile { md5: String, size: usize, section: String, priority: String, filename: String },
    Profile(bool, String),
    ParsedVcs { url: String, branch: Option<String>, subpath: Option<String> },
    Vcs { kind: u8, url: String, branch: Option<String>, subpath: Option<String>, module: Option<String> },
    ForwardedYes(String),
    Origin { category: Option<u8>, commit: bool, payload: String },
    AppliedUpstream { commit: bool, payload: String },
    License { kind: u8, name: String, text: String },
    SigPath(String),
    SigBlock(String),
}

const KEYWORDS: &[(&str, &[&str])] = &[
    ("Priority", &["required", "important", "standard", "optional", "extra"]),
    ("MultiArch", &["same", "foreign", "no", "allowed"]),
    ("Urgency", &["low", "medium", "high", "emergency", "critical"]),
    ("VersionConstraint", &[">=", "<=", "=", ">>", "<<"]),
    ("OriginCategory", &["backport", "vendor", "upstream", "other"]),
    ("RepositoryType", &["deb", "deb-src"]),
    ("YesNoForce", &["yes", "no", "force"]),
    ("Forwarded", &["no", "not-needed"]),
];

/// Words from neighbouring vocabularies (other tools' spellings of the same notions, booleans, Policy terms that are not
/// keywords of these types). None is a keyword of any enumeration above; each is offered to every enumeration.
const NEAR_MISSES: &[&str] = &[
    "true", "false", "1", "0", "on", "off", "y", "n", "t", "f", "none", "all", "any", "default", "unknown", "enabled", "disabled", "always", "never", "auto",
    "mandatory", "essential", "recommended", "suggested", "normal", "minor", "major", "urgent", "native", "source", "binary", "rpm", "rpm-src", "deb-source", "src",
    "debian", "ubuntu", "local", "patch", "forwarded", "needed", "not needed", "notneeded", "yes please", "forced", "allow", "sameish", "self",
    "==", "!=", "=>", "=<", "~", "ge", "le", "eq", "gt", "lt", ">>=", "<<=", "> =", "<>",
];

fn keyword_check(ty: &str, s: &str, must_accept: bool) -> CheckResult {
    // returns Ok(printed form) for accepted strings
    let res: Result<String, String> = match ty {
        "Priority" => Priority::from_str(s).map(|v| v.to_string()),
        "MultiArch" => MultiArch::from_str(s).map(|v| v.to_string()),
        "Urgency" => Urgency::from_str(s).map(|v| v.to_string()),
        "VersionConstraint" => VersionConstraint::from_str(s).map(|v| v.to_string()),
        "OriginCategory" => OriginCategory::from_str(s).map(|v| v.to_string()).map_err(|e| e.to_string()),
        "RepositoryType" => RepositoryType::from_str(s).map(|v| v.to_string()).map_err(|e| e.to_string()),
        "YesNoForce" => YesNoForce::from_str(s).map(|v| (&v).to_string()).map_err(|e| e.to_string()),
        "Forwarded" => Forwarded::from_str(s).map(|v| match v {
            // only the two keyword variants are enumerated; Yes(..) carries a payload
            Forwarded::Yes(p) => format!("Yes({})", p),
            v => v.to_string(),
        }).map_err(|e| e.to_string()),
        _ => unreachable!(),
    };
    if must_accept {
        match res {
            Ok(p) => ensure_eq!(p, s, format!("keyword-roundtrip/{}", ty), "{}::from_str({:?}).to_string()", ty, s),
            Err(e) => return fail(&format!("keyword-accepted/{}", ty), format!("{}::from_str({:?}) fails: {}", ty, s, e)),
        }
        // equal values: parsing the printed form again gives an equal value (types with PartialEq)
        match ty {
            "Priority" => ensure!(Priority::from_str(s) == Priority::from_str(&Priority::from_str(s).unwrap().to_string()), "keyword-equal/Priority", "re-parse differs"),
            "Urgency" => ensure!(Urgency::from_str(s) == Urgency::from_str(&Urgency::from_str(s).unwrap().to_string()), "keyword-equal/Urgency", "re-parse differs"),
            "MultiArch" => ensure!(MultiArch::from_str(s) == MultiArch::from_str(&MultiArch::from_str(s).unwrap().to_string()), "keyword-equal/MultiArch", "re-parse differs"),
            "VersionConstraint" => ensure!(VersionConstraint::from_str(s) == VersionConstraint::from_str(&VersionConstraint::from_str(s).unwrap().to_string()), "keyword-equal/VersionConstraint", "re-parse differs"),
            _ => {}
        }
    } else if ty == "Forwarded" {
        // anything but the two keywords is a payload, never one of the keyword variants
        match Forwarded::from_str(s) {
            Ok(Forwarded::Yes(p)) => ensure_eq!(p, s, "forwarded-other-is-yes", "Forwarded::from_str({:?})", s),
            other => return fail("forwarded-other-is-yes", format!("Forwarded::from_str({:?}) = {:?}, expected Yes(..)", s, other)),
        }
    } else {
        ensure!(res.is_err(), format!("unknown-keyword-rejected/{}", ty), "{}::from_str({:?}) = {:?}: a string outside the keyword set must be an error, not a default", ty, s, res);
    }
    Ok(())
}

fn roundtrip<T: FromStr + PartialEq + Debug + ToString>(v: &T, aid: &str) -> CheckResult
where
    T::Err: Debug,
{
    let text = v.to_string();
    match T::from_str(&text) {
        Ok(v2) => {
            ensure!(&v2 == v, format!("roundtrip/{}", aid), "from_str({:?}) = {:?}, expected {:?}", text, v2, v);
            ensure_eq!(v2.to_string(), text, format!("print-parse-print/{}", aid), "printing the parsed canonical text {:?}", text);
        }
        Err(e) => return fail(&format!("roundtrip/{}", aid), format!("from_str({:?}) fails: {:?} (value {:?})", text, e, v)),
    }
    Ok(())
}

fn prio(s: &str) -> Priority {
    Priority::from_str(s).expect("generated priority keyword")
}

pub fn check(case: &Case) -> CheckResult {
    match case {
        Case::Keyword(ty, s) => keyword_check(ty, s, true),
        Case::Reject(ty, s) => keyword_check(ty, s, false),
        Case::Checksum(kind, hash, size, filename) => match kind {
            0 => roundtrip(&Md5Checksum { md5sum: hash.clone(), size: *size, filename: filename.clone() }, "Md5Checksum"),
            1 => roundtrip(&Sha1Checksum { sha1: hash.clone(), size: *size, filename: filename.clone() }, "Sha1Checksum"),
            2 => roundtrip(&Sha256Checksum { sha256: hash.clone(), size: *size, filename: filename.clone() }, "Sha256Checksum"),
            _ => roundtrip(&Sha512Checksum { sha512: hash.clone(), size: *size, filename: filename.clone() }, "Sha512Checksum"),
        },
        Case::PackageList { package, ptype, section, priority, extra } => {
            let mut e = PackageListEntry::new(package, ptype, section, prio(priority));
            for (k, v) in extra {
                e.extra.insert(k.clone(), v.clone());
            }
            let text = e.to_string();
            match PackageListEntry::from_str(&text) {
                Ok(e2) => ensure!(e2 == e, "roundtrip/PackageListEntry", "from_str({:?}) = {:?}, expected {:?}", text, e2, e),
                Err(err) => return fail("roundtrip/PackageListEntry", format!("from_str({:?}) fails: {}", text, err)),
            }
            if e.extra.len() <= 1 {
                ensure_eq!(PackageListEntry::from_str(&text).unwrap().to_string(), text, "print-parse-print/PackageListEntry", "canonical text");
            }
            Ok(())
        }
        Case::ChangesFile { md5, size, section, priority, filename } => roundtrip(&ChangesFile { md5sum: md5.clone(), size: *size, section: section.clone(), priority: prio(priority), filename: filename.clone() }, "changes::File"),
        Case::Profile(neg, name) => roundtrip(&if *neg { BuildProfile::Disabled(name.clone()) } else { BuildProfile::Enabled(name.clone()) }, "BuildProfile"),
        Case::ParsedVcs { url, branch, subpath } => roundtrip(&ParsedVcs { repo_url: url.clone(), branch: branch.clone(), subpath: subpath.clone() }, "ParsedVcs"),
        Case::Vcs { kind, url, branch, subpath, module } => {
            let v = match kind {
                0 => Vcs::Git { repo_url: url.clone(), branch: branch.clone(), subpath: subpath.clone() },
                1 => Vcs::Bzr { repo_url: url.clone(), subpath: subpath.clone() },
                2 => Vcs::Hg { repo_url: url.clone() },
                3 => Vcs::Svn { url: url.clone() },
                _ => Vcs::Cvs { root: url.clone(), module: module.clone() },
            };
            let (name, value) = v.to_field();
            let name = name.to_string();
            match Vcs::from_field(&name, &value) {
                Ok(v2) => {
                    ensure_eq!(format!("{:?}", v2), format!("{:?}", v), "roundtrip/Vcs", "Vcs::from_field({:?}, {:?})", name, value);
                    let (n2, val2) = v2.to_field();
                    ensure!(n2 == name && val2 == value, "print-parse-print/Vcs", "to_field of the parsed value: ({:?}, {:?}) vs ({:?}, {:?})", n2, val2, name, value);
                }
                Err(e) => return fail("roundtrip/Vcs", format!("Vcs::from_field({:?}, {:?}) fails: {}", name, value, e)),
            }
            Ok(())
        }
        Case::ForwardedYes(s) => roundtrip(&Forwarded::Yes(s.clone()), "Forwarded::Yes"),
        Case::Origin { category, commit, payload } => {
            let origin = if *commit { Origin::Commit(payload.clone()) } else { Origin::Other(payload.clone()) };
            roundtrip(&origin, "Origin")?;
            let cat = category.map(|c| [OriginCategory::Backport, OriginCategory::Vendor, OriginCategory::Upstream, OriginCategory::Other][c as usize]);
            // with its category prefix, through the DEP-3 header accessors (format_origin / parse_origin)
            let mut h = dep3::lossless::PatchHeader::new();
            h.set_origin(cat, origin.clone());
            ensure_eq!(h.origin(), Some((cat, origin.clone())), "roundtrip/origin-with-category", "PatchHeader::origin() after set_origin (header text {:?})", h.to_string());
            let reread = dep3::lossless::PatchHeader::from_str(&h.to_string());
            match reread {
                Ok(h2) => ensure_eq!(h2.origin(), Some((cat, origin)), "roundtrip/origin-with-category-text", "origin() of the re-read header {:?}", h.to_string()),
                Err(e) => return fail("roundtrip/origin-with-category-text", format!("header {:?} does not re-read: {}", h.to_string(), e)),
            }
            Ok(())
        }
        Case::AppliedUpstream { commit, payload } => roundtrip(&if *commit { AppliedUpstream::Commit(payload.clone()) } else { AppliedUpstream::Other(payload.clone()) }, "AppliedUpstream"),
        Case::License { kind, name, text } => roundtrip(
            &match kind {
                0 => License::Name(name.clone()),
                1 => License::Text(text.clone()),
                _ => License::Named(name.clone(), text.clone()),
            },
            "License",
        ),
        Case::SigPath(p) => roundtrip(&Signature::KeyPath(p.into()), "Signature::KeyPath"),
        Case::SigBlock(t) => roundtrip(&Signature::KeyBlock(t.clone()), "Signature::KeyBlock"),
    }
}

// ------------------------------------------------------------------------------------------
// generation

const TOKEN_CHARS: &[(u32, &str)] = &[(20, "a"), (6, "b"), (6, "1"), (3, "-"), (3, "."), (3, "/"), (2, "_"), (2, ":"), (2, "="), (2, "+"), (2, "~"), (1, "["), (1, "]"), (1, "!"), (1, "#"), (1, "é"), (1, "€"), (1, "@"), (1, ","), (1, "<"), (1, ">")];

/// a digest-like token: hexadecimal digits in either case, or any other token
fn digest(t: &mut Tape) -> String {
    if t.chance(2, 3) {
        let n = t.range(1, 12);
        (0..n).map(|_| *t.pick(&['0', '1', '9', 'a', 'b', 'd', 'f', 'A', 'C', 'E', 'F'])).collect()
    } else {
        token(t, "")
    }
}

/// a non-empty token without any (Unicode) whitespace
fn token(t: &mut Tape, forbid: &str) -> String {
    let mut s = String::new();
    let n = t.range(1, 8);
    for _ in 0..n {
        let c = t.weighted(TOKEN_CHARS);
        if forbid.contains(c) {
            s.push('x');
        } else {
            s.push_str(c);
        }
    }
    s
}

/// A branch name from the canonical domain: " [x]" after the URL denotes the subpath, so a branch that itself starts
/// with '[' makes the text form ambiguous by the format's own rules.
fn branch_token(t: &mut Tape) -> String {
    let b = token(t, "");
    if b.starts_with('[') {
        format!("b{}", b)
    } else {
        b
    }
}

fn line(t: &mut Tape) -> String {
    // single-line payload: no newline, no leading/trailing whitespace, may contain inner spaces
    let mut s = token(t, "");
    while t.more(0, 0, 1, 1, 3) {
        s.push(' ');
        s.push_str(&token(t, ""));
    }
    s
}

fn mutate_keyword(t: &mut Tape, kw: &str) -> String {
    let chars: Vec<char> = kw.chars().collect();
    match t.below(9) {
        0 => String::new(),
        7 => t.pick(NEAR_MISSES).to_string(),
        8 => {
            // letters replaced by characters that case-map onto them: U+0131 dotless i and U+0130 (-> i / I), U+017F long s
            // (-> S), U+212A Kelvin sign (-> k); a reader that folds case with to_uppercase/to_lowercase would accept them
            let mut out = String::new();
            let mut changed = false;
            for c in kw.chars() {
                let r = match c {
                    'i' if !changed || t.flag() => Some(if t.flag() { '\u{131}' } else { '\u{130}' }),
                    's' if !changed || t.flag() => Some('\u{17f}'),
                    'k' if !changed || t.flag() => Some('\u{212a}'),
                    _ => None,
                };
                match r {
                    Some(x) => {
                        out.push(x);
                        changed = true;
                    }
                    None => out.push(c),
                }
            }
            if changed {
                out
            } else {
                format!("{}\u{301}", kw)
            }
        }
        1 => format!(" {}", kw),
        2 => format!("{} ", kw),
        3 => {
            let mut c = chars.clone();
            c.remove(t.below(c.len()));
            c.into_iter().collect()
        }
        4 => {
            let mut c = chars.clone();
            c.insert(t.below(c.len() + 1), *t.pick(&['x', '-', '=', '>']));
            c.into_iter().collect()
        }
        5 => format!("{}{}", kw, kw),
        _ => token(t, ""),
    }
}

impl PropImpl for C18 {
    type Case = Case;
    fn id(&self) -> &'static str {
        "C18"
    }
    fn rule(&self) -> String {
        "cases are typed values: every keyword of the 8 enumerations (exhaustive) and, for the rejection clause, keywords with one edit / keywords with letters replaced by characters that case-map onto them (U+0131, U+0130, U+017F, U+212A) / other enumerations' keywords / a fixed list of near-miss words from neighbouring vocabularies (true, false, on, off, ==, => ...; exhaustive) / empty / padded strings whose \
         lower-case form is not a keyword; records (4 checksum types, PackageListEntry with 0-3 extras, changes::File) over whitespace-free tokens and integers; BuildProfile; ParsedVcs and Vcs with every \
         branch/subpath/module combination; Forwarded::Yes, Origin/AppliedUpstream (commit and other) and (category, origin) through the DEP-3 header accessors; License Name/Text/Named; Signature KeyPath/KeyBlock. \
         Payloads come from each type's canonical value domain (unambiguous by the format's own rules). Non-trivial: record / payload-carrying values. Distinct by value hash.".into()
    }
    fn budget(&self, tier: Tier) -> Budget {
        Budget { cases_per_lane: if tier == Tier::Quick { 45000 } else { 200000 }, tape_max: 200, cpu_s: 10 }
    }
    fn spaces(&self, _tier: Tier) -> Vec<Space> {
        let n: usize = KEYWORDS.iter().map(|k| k.1.len()).sum();
        // every keyword of every enumeration, and every keyword offered to every *other* enumeration
        vec![
            Space { name: "all keywords x all enumerations".into(), size: (n * KEYWORDS.len()) as u64, exhaustive: true },
            Space { name: "near-miss words x all enumerations".into(), size: (NEAR_MISSES.len() * KEYWORDS.len()) as u64, exhaustive: true },
        ]
    }
    fn from_enum(&self, _ctx: &mut Ctx, _tier: Tier, space: usize, index: u64) -> Case {
        if space == 1 {
            let (ty, own) = KEYWORDS[index as usize / NEAR_MISSES.len()];
            let w = NEAR_MISSES[index as usize % NEAR_MISSES.len()];
            assert!(!own.contains(&w));
            return Case::Reject(ty, w.to_string());
        }
        let all: Vec<(&'static str, &'static str)> = KEYWORDS.iter().flat_map(|(ty, ks)| ks.iter().map(move |k| (*ty, *k))).collect();
        let (_, kw) = all[index as usize % all.len()];
        let ty = KEYWORDS[index as usize / all.len()].0;
        let own = KEYWORDS.iter().find(|k| k.0 == ty).unwrap().1;
        if own.contains(&kw) {
            Case::Keyword(ty, kw.to_string())
        } else {
            Case::Reject(ty, kw.to_string())
        }
    }
    fn decode(&self, _ctx: &mut Ctx, t: &mut Tape) -> Case {
        let prios = ["required", "important", "standard", "optional", "extra"];
        match t.below(14) {
            0 => {
                let (ty, ks) = *t.pick(KEYWORDS);
                let kw = *t.pick(ks);
                let s = mutate_keyword(t, kw);
                if ks.contains(&s.to_lowercase().as_str()) {
                    Case::Keyword(ty, kw.to_string())
                } else {
                    Case::Reject(ty, s)
                }
            }
            1 => Case::Checksum(t.below(4) as u8, digest(t), t.below(65536) * t.range(1, 1000), token(t, "")),
            2 => {
                let mut extra: Vec<(String, String)> = vec![];
                while t.more(extra.len(), 0, 3, 1, 2) {
                    let k = token(t, "=");
                    if extra.iter().all(|x| x.0 != k) {
                        extra.push((k, token(t, "")));
                    }
                }
                Case::PackageList { package: token(t, ""), ptype: token(t, ""), section: token(t, ""), priority: t.pick(&prios).to_string(), extra }
            }
            3 => Case::ChangesFile { md5: token(t, ""), size: t.below(65536), section: token(t, ""), priority: t.pick(&prios).to_string(), filename: token(t, "") },
            4 => {
                let name = token(t, "");
                Case::Profile(t.flag(), if name.starts_with('!') { format!("p{}", name) } else { name })
            }
            5 => Case::ParsedVcs { url: token(t, ""), branch: if t.flag() { Some(branch_token(t)) } else { None }, subpath: if t.flag() { Some(token(t, "]")) } else { None } },
            6 => {
                let kind = t.below(5) as u8;
                Case::Vcs {
                    kind,
                    url: token(t, ""),
                    branch: if kind == 0 && t.flag() { Some(branch_token(t)) } else { None },
                    subpath: if kind <= 1 && t.flag() { Some(token(t, "]")) } else { None },
                    module: if kind == 4 && t.flag() { Some(line(t)) } else { None },
                }
            }
            7 => {
                // keywords are matched exactly: a reference that differs from one only in letter case is a reference
                let s = if t.chance(1, 5) { t.pick(&["No", "NO", "nO", "Not-Needed", "NOT-NEEDED", "not-Needed", "Yes", "yes", "YES"]).to_string() } else { line(t) };
                Case::ForwardedYes(if s == "no" || s == "not-needed" { format!("{}x", s) } else { s })
            }
            8 => {
                let commit = t.flag();
                let mut payload = line(t);
                if !commit && t.chance(1, 5) {
                    // prefixes are matched exactly: other letter case makes it an ordinary description
                    payload = t.pick(&["Commit:abc123", "COMMIT:abc", "Upstream, x", "BACKPORT, y z", "Vendor", "Other, z", "commit :a"]).to_string();
                }
                if !commit {
                    // canonical domain: an "other" origin neither looks like a commit nor starts with a category prefix
                    if payload.starts_with("commit:") {
                        payload = format!("x{}", payload);
                    }
                    for c in ["backport", "vendor", "upstream", "other"] {
                        if payload == c || payload.starts_with(&format!("{}, ", c)) {
                            payload = format!("x{}", payload);
                        }
                    }
                }
                Case::Origin { category: if t.flag() { Some(t.below(4) as u8) } else { None }, commit, payload }
            }
            9 => {
                let commit = t.flag();
                let mut payload = line(t);
                if !commit && t.chance(1, 5) {
                    payload = t.pick(&["Commit:abc123", "COMMIT:1", "commit :a", "Commit", "1.2, commit:0123abcd", "2.0 commit:ab", "see commit:ab", "x,commit:1"]).to_string();
                }
                if !commit && payload.starts_with("commit:") {
                    payload = format!("x{}", payload);
                }
                Case::AppliedUpstream { commit, payload }
            }
            10 | 11 => {
                let kind = t.below(3) as u8;
                // the text may be empty (Named(name, "") is written "name\n"); an empty name is canonical only for Name
                let mut text = if t.chance(1, 5) { String::new() } else { line(t) };
                while t.more(0, 0, 1, 2, 3) {
                    text.push('\n');
                    if t.chance(3, 4) {
                        text.push_str(&line(t));
                    }
                }
                let name = if kind == 0 && t.chance(1, 8) { String::new() } else { line(t) };
                Case::License { kind, name, text }
            }
            12 => Case::SigPath(format!("/{}", token(t, ""))),
            _ => {
                let mut text = line(t);
                while t.more(0, 0, 1, 2, 3) {
                    text.push('\n');
                    text.push_str(&line(t));
                }
                Case::SigBlock(text)
            }
        }
    }
    fn classify(&self, ctx: &mut Ctx, case: &Case) {
        ctx.set_hash(&format!("{:?}", case));
        let (label, nt): (&'static str, bool) = match case {
            Case::Keyword(..) => ("keyword", false),
            Case::Reject(..) => ("rejection", false),
            Case::Checksum(..) => ("checksum", true),
            Case::PackageList { extra, .. } => (if extra.is_empty() { "package-list" } else { "package-list-with-extras" }, true),
            Case::ChangesFile { .. } => ("changes-file", true),
            Case::Profile(..) => ("build-profile", true),
            Case::ParsedVcs { branch, subpath, .. } => (match (branch.is_some(), subpath.is_some()) { (false, false) => "vcs:plain", (true, false) => "vcs:branch", (false, true) => "vcs:subpath", _ => "vcs:branch+subpath" }, true),
            Case::Vcs { kind, .. } => (["Vcs::Git", "Vcs::Bzr", "Vcs::Hg", "Vcs::Svn", "Vcs::Cvs"][*kind as usize], true),
            Case::ForwardedYes(_) => ("forwarded-yes", true),
            Case::Origin { category, .. } => (if category.is_some() { "origin-with-category" } else { "origin" }, true),
            Case::AppliedUpstream { .. } => ("applied-upstream", true),
            Case::License { kind, .. } => (["license:name", "license:text", "license:named"][*kind as usize], true),
            Case::SigPath(_) => ("signature:key-path", true),
            Case::SigBlock(t) => (if t.contains('\n') { "signature:key-block-multi-line" } else { "signature:key-block-single-line" }, true),
        };
        ctx.label(label);
        match case {
            Case::Checksum(_, h, _, _) => ctx.label_if(h.chars().all(|c| c.is_ascii_hexdigit()) && h.chars().any(|c| c.is_ascii_uppercase()), "checksum:upper-case-hex-digest"),
            Case::ForwardedYes(p) => ctx.label_if(["no", "not-needed", "yes"].contains(&p.to_lowercase().as_str()), "forwarded-yes:reference-is-a-keyword-in-other-letter-case"),
            Case::Origin { commit: false, payload, .. } | Case::AppliedUpstream { commit: false, payload } => ctx.label_if(payload.to_lowercase().starts_with("commit") || ["upstream", "backport", "vendor", "other"].iter().any(|c| payload.to_lowercase().starts_with(c)), "dep3:description-resembles-a-prefix-in-other-letter-case"),
            Case::License { text, name, .. } => {
                ctx.label_if(text.is_empty(), "license:empty-text");
                ctx.label_if(name.is_empty(), "license:empty-name");
            }
            _ => {}
        }
        ctx.nontrivial = nt;
    }
    fn expected_labels(&self) -> Vec<&'static str> {
        vec!["keyword", "rejection", "checksum", "checksum:upper-case-hex-digest", "package-list", "package-list-with-extras", "changes-file", "build-profile", "vcs:plain", "vcs:branch", "vcs:subpath", "vcs:branch+subpath",
            "Vcs::Git", "Vcs::Bzr", "Vcs::Hg", "Vcs::Svn", "Vcs::Cvs", "forwarded-yes", "origin-with-category", "origin", "applied-upstream", "license:name", "license:text", "license:named", "license:empty-text", "license:empty-name", "forwarded-yes:reference-is-a-keyword-in-other-letter-case", "dep3:description-resembles-a-prefix-in-other-letter-case",
            "signature:key-path", "signature:key-block-multi-line", "signature:key-block-single-line"]
    }
    fn check(&self, _ctx: &mut Ctx, case: &Case) -> CheckResult {
        check(case)
    }
    fn render(&self, case: &Case) -> String {
        format!("{:?}", case)
    }
}
