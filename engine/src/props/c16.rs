//! C16 Derived struct/paragraph conversions round-trip and update only own fields.
use crate::gen::kinds::{self, Fam, GenPara, Spec};
use crate::tape::Tape;
use crate::{ensure, ensure_eq, fail, Budget, CheckResult, Ctx, PropImpl, Space, Tier};
use deb822_lossless::lossy::Paragraph as LP;
use deb822_lossless::Paragraph as LLP;
use deb822_lossless::{FromDeb822, FromDeb822Paragraph, ToDeb822, ToDeb822Paragraph};
use std::str::FromStr;

pub struct C16;

// ------------------------------------------------------------------------------------------
// (a) the shape matrix: {mandatory, Option} x {default key, field = ".."} x {default, serialize_with,
// deserialize_with, both} over scalar / enum / list types

#[derive(Debug, Clone, Copy, PartialEq, Eq)]
pub enum Color {
    Red,
    Green,
    DarkBlue,
}
impl std::fmt::Display for Color {
    fn fmt(&self, f: &mut std::fmt::Formatter) -> std::fmt::Result {
        f.write_str(match self {
            Color::Red => "red",
            Color::Green => "green",
            Color::DarkBlue => "dark-blue",
        })
    }
}
impl FromStr for Color {
    type Err = String;
    fn from_str(s: &str) -> Result<Self, String> {
        match s {
            "red" => Ok(Color::Red),
            "green" => Ok(Color::Green),
            "dark-blue" => Ok(Color::DarkBlue),
            _ => Err(format!("unknown colour {:?}", s)),
        }
    }
}

fn ser_list(v: &[String]) -> String {
    v.join(", ")
}
fn de_list(s: &str) -> Result<Vec<String>, String> {
    if s.is_empty() {
        return Ok(vec![]);
    }
    s.split(", ").map(|x| if x.is_empty() { Err("empty list item".to_string()) } else { Ok(x.to_string()) }).collect()
}
fn ser_plus(v: &i32) -> String {
    // parseable by i32::from_str
    if *v >= 0 {
        format!("+{}", v)
    } else {
        v.to_string()
    }
}
fn de_u64(s: &str) -> Result<u64, String> {
    s.trim().replace('_', "").parse::<u64>().map_err(|e| format!("bad number {:?}: {}", s, e))
}
fn ser_color_upper(c: &Color) -> String {
    c.to_string().to_uppercase()
}
fn de_color_any_case(s: &str) -> Result<Color, String> {
    Color::from_str(&s.to_lowercase())
}
fn ser_yes(b: &bool) -> String {
    if *b { "yes".into() } else { "no".into() }
}
fn de_yes(s: &str) -> Result<bool, String> {
    match s {
        "yes" => Ok(true),
        "no" => Ok(false),
        _ => Err(format!("not yes/no: {:?}", s)),
    }
}

/// scalars with the default codecs
#[derive(FromDeb822, ToDeb822, Debug, Clone, PartialEq)]
pub struct S1 {
    name: String,
    count: i32,
    #[deb822(field = "Big-Count")]
    big: u64,
    flag: bool,
    // written with a path, as a struct in another crate may do: optional fields are recognised by the last path segment
    opt_name: std::option::Option<String>,
    #[deb822(field = "Opt-Count")]
    opt_count: core::option::Option<i32>,
    opt_flag: Option<bool>,
    #[deb822(field = "Colour")]
    colour: Color,
    opt_colour: Option<Color>,
    #[deb822(field = "Other-Colour")]
    other_colour: Option<Color>,
    plain_colour: Color,
    // a keyword as field name: both derives must agree on the key it gets
    r#type: Option<String>,
}

/// both custom codecs
#[derive(FromDeb822, ToDeb822, Debug, Clone, PartialEq)]
pub struct S2 {
    #[deb822(serialize_with = ser_list, deserialize_with = de_list)]
    items: Vec<String>,
    #[deb822(field = "More-Items", serialize_with = ser_list, deserialize_with = de_list)]
    more: Vec<String>,
    #[deb822(serialize_with = ser_list, deserialize_with = de_list)]
    opt_items: Option<Vec<String>>,
    #[deb822(field = "Opt-More", serialize_with = ser_list, deserialize_with = de_list)]
    opt_more: Option<Vec<String>>,
    #[deb822(serialize_with = ser_yes, deserialize_with = de_yes)]
    enabled: bool,
    // the configuration of one field may be spread over several attributes (bool also has default codecs, so dropping
    // either attribute still compiles and shows as a wrong key or as true/false instead of yes/no)
    #[deb822(field = "Opt-Enabled")]
    #[deb822(serialize_with = ser_yes, deserialize_with = de_yes)]
    opt_enabled: Option<bool>,
    #[deb822(field = "Shade", serialize_with = ser_color_upper, deserialize_with = de_color_any_case)]
    shade: Color,
    #[deb822(serialize_with = ser_color_upper, deserialize_with = de_color_any_case)]
    opt_shade: Option<Color>,
}

/// only serialize_with / only deserialize_with
#[derive(FromDeb822, ToDeb822, Debug, Clone, PartialEq)]
pub struct S3 {
    #[deb822(serialize_with = ser_plus)]
    delta: i32,
    #[deb822(field = "Delta-2", serialize_with = ser_plus)]
    delta2: i32,
    #[deb822(serialize_with = ser_plus)]
    opt_delta: Option<i32>,
    #[deb822(field = "Opt-Delta-2", serialize_with = ser_plus)]
    opt_delta2: Option<i32>,
    #[deb822(deserialize_with = de_u64)]
    size: u64,
    #[deb822(field = "Size-2", deserialize_with = de_u64)]
    size2: u64,
    #[deb822(deserialize_with = de_u64)]
    opt_size: Option<u64>,
    #[deb822(field = "Opt-Size-2", deserialize_with = de_u64)]
    opt_size2: Option<u64>,
    #[deb822(deserialize_with = de_color_any_case)]
    tint: Color,
    #[deb822(field = "Opt-Tint", deserialize_with = de_color_any_case)]
    opt_tint: Option<Color>,
    #[deb822(serialize_with = ser_list)]
    words: String2,
    #[deb822(field = "Opt-Words", serialize_with = ser_list)]
    opt_words: Option<String2>,
}

/// a list type that parses its own serialisation through FromStr (used with serialize_with only)
#[derive(Debug, Clone, PartialEq)]
pub struct String2(Vec<String>);
impl std::ops::Deref for String2 {
    type Target = [String];
    fn deref(&self) -> &[String] {
        &self.0
    }
}
impl FromStr for String2 {
    type Err = String;
    fn from_str(s: &str) -> Result<Self, String> {
        de_list(s).map(String2)
    }
}

#[derive(Debug, Clone)]
pub enum Value {
    S1(S1),
    S2(S2),
    S3(S3),
}

/// expected (key, text) list in declaration order
fn expected_fields(v: &Value) -> Vec<(String, String)> {
    let mut e: Vec<(String, String)> = vec![];
    let mut put = |k: &str, v: Option<String>| {
        if let Some(v) = v {
            e.push((k.to_string(), v));
        }
    };
    match v {
        Value::S1(s) => {
            put("name", Some(s.name.clone()));
            put("count", Some(s.count.to_string()));
            put("Big-Count", Some(s.big.to_string()));
            put("flag", Some(s.flag.to_string()));
            put("opt_name", s.opt_name.clone());
            put("Opt-Count", s.opt_count.map(|x| x.to_string()));
            put("opt_flag", s.opt_flag.map(|x| x.to_string()));
            put("Colour", Some(s.colour.to_string()));
            put("opt_colour", s.opt_colour.map(|x| x.to_string()));
            put("Other-Colour", s.other_colour.map(|x| x.to_string()));
            put("plain_colour", Some(s.plain_colour.to_string()));
            put(raw_key(), s.r#type.clone());
        }
        Value::S2(s) => {
            put("items", Some(ser_list(&s.items)));
            put("More-Items", Some(ser_list(&s.more)));
            put("opt_items", s.opt_items.as_ref().map(|x| ser_list(x)));
            put("Opt-More", s.opt_more.as_ref().map(|x| ser_list(x)));
            put("enabled", Some(ser_yes(&s.enabled)));
            put("Opt-Enabled", s.opt_enabled.map(|x| ser_yes(&x)));
            put("Shade", Some(ser_color_upper(&s.shade)));
            put("opt_shade", s.opt_shade.map(|x| ser_color_upper(&x)));
        }
        Value::S3(s) => {
            put("delta", Some(ser_plus(&s.delta)));
            put("Delta-2", Some(ser_plus(&s.delta2)));
            put("opt_delta", s.opt_delta.map(|x| ser_plus(&x)));
            put("Opt-Delta-2", s.opt_delta2.map(|x| ser_plus(&x)));
            put("size", Some(s.size.to_string()));
            put("Size-2", Some(s.size2.to_string()));
            put("opt_size", s.opt_size.map(|x| x.to_string()));
            put("Opt-Size-2", s.opt_size2.map(|x| x.to_string()));
            put("tint", Some(s.tint.to_string()));
            put("Opt-Tint", s.opt_tint.map(|x| x.to_string()));
            put("words", Some(ser_list(&s.words)));
            put("Opt-Words", s.opt_words.as_ref().map(|x| ser_list(x)));
        }
    }
    e
}

/// The key of the field declared as `r#type`: "r#type" or "type" are both defensible, so the
/// writer's choice is taken as given; what is checked is that the reader and every other path agree with it.
fn raw_key() -> &'static str {
    static K: std::sync::OnceLock<&'static str> = std::sync::OnceLock::new();
    K.get_or_init(|| {
        let s = S1 { name: "n".into(), count: 0, big: 0, flag: false, opt_name: None, opt_count: None, opt_flag: None, colour: Color::Red, opt_colour: None, other_colour: None, plain_colour: Color::Red, r#type: Some("probe-value".into()) };
        let p: LP = s.to_paragraph();
        let k = p.iter().find(|(_, v)| *v == "probe-value").map(|(k, _)| k.to_string()).unwrap_or_else(|| "r#type".to_string());
        if k == "type" { "type" } else { "r#type" }
    })
}

fn mandatory_keys(v: &Value) -> Vec<&'static str> {
    match v {
        Value::S1(_) => vec!["name", "count", "Big-Count", "flag", "Colour", "plain_colour"],
        Value::S2(_) => vec!["items", "More-Items", "enabled", "Shade"],
        Value::S3(_) => vec!["delta", "Delta-2", "size", "Size-2", "tint", "words"],
    }
}
fn all_keys(v: &Value) -> Vec<&'static str> {
    match v {
        Value::S1(_) => vec!["name", "count", "Big-Count", "flag", "opt_name", "Opt-Count", "opt_flag", "Colour", "opt_colour", "Other-Colour", "plain_colour", raw_key()],
        Value::S2(_) => vec!["items", "More-Items", "opt_items", "Opt-More", "enabled", "Opt-Enabled", "Shade", "opt_shade"],
        Value::S3(_) => vec!["delta", "Delta-2", "opt_delta", "Opt-Delta-2", "size", "Size-2", "opt_size", "Opt-Size-2", "tint", "Opt-Tint", "words", "Opt-Words"],
    }
}
/// keys whose type is not String (an unparsable value must produce an error naming the key)
fn typed_keys(v: &Value) -> Vec<&'static str> {
    match v {
        Value::S1(_) => vec!["count", "Big-Count", "flag", "Opt-Count", "opt_flag", "Colour", "opt_colour", "Other-Colour", "plain_colour"],
        Value::S2(_) => vec!["enabled", "Opt-Enabled", "Shade", "opt_shade"],
        Value::S3(_) => vec!["delta", "Delta-2", "opt_delta", "Opt-Delta-2", "size", "Size-2", "opt_size", "Opt-Size-2", "tint", "Opt-Tint"],
    }
}

fn img_lp(p: &LP) -> Vec<(String, String)> {
    p.iter().map(|(k, v)| (k.to_string(), v.to_string())).collect()
}
fn img_llp(p: &LLP) -> Vec<(String, String)> {
    p.items().collect()
}

macro_rules! with_value {
    ($v:expr, $x:ident => $body:expr) => {
        match $v {
            Value::S1($x) => $body,
            Value::S2($x) => $body,
            Value::S3($x) => $body,
        }
    };
}

fn reparse(v: &Value, lp: &LP, llp: &LLP) -> (Result<String, String>, Result<String, String>) {
    match v {
        Value::S1(_) => (S1::from_paragraph(lp).map(|x| format!("{:?}", x)), S1::from_paragraph(llp).map(|x| format!("{:?}", x))),
        Value::S2(_) => (S2::from_paragraph(lp).map(|x| format!("{:?}", x)), S2::from_paragraph(llp).map(|x| format!("{:?}", x))),
        Value::S3(_) => (S3::from_paragraph(lp).map(|x| format!("{:?}", x)), S3::from_paragraph(llp).map(|x| format!("{:?}", x))),
    }
}

/// A prior paragraph for update: foreign fields, comments, odd formatting, stale values of own fields.
#[derive(Debug, Clone)]
pub struct Prior {
    /// (name, value lines, colon whitespace, comment before)
    pub fields: Vec<(String, Vec<String>, String, Option<String>)>,
}

impl Prior {
    fn text(&self) -> String {
        let mut t = String::new();
        for (n, lines, ws, c) in &self.fields {
            if let Some(c) = c {
                t.push_str(c);
                t.push('\n');
            }
            t.push_str(&format!("{}:{}{}\n", n, ws, lines[0]));
            for l in &lines[1..] {
                t.push_str(&format!("   {}\n", l));
            }
        }
        t
    }
}

fn check_matrix(v: &Value, prior: &Prior, broken: &Option<(String, Option<String>)>) -> CheckResult {
    let want = expected_fields(v);
    // to_paragraph on both back-ends: exactly the present fields, declaration order, configured names, custom text
    let lp: LP = with_value!(v, x => x.to_paragraph());
    let llp: LLP = with_value!(v, x => x.to_paragraph());
    ensure_eq!(img_lp(&lp), want, "to-paragraph/lossy", "lossy to_paragraph of {:?}", v);
    ensure_eq!(img_llp(&llp), want, "to-paragraph/lossless", "lossless to_paragraph of {:?}", v);
    // round trip
    let dbg = with_value!(v, x => format!("{:?}", x));
    let (a, b) = reparse(v, &lp, &llp);
    ensure_eq!(a, Ok(dbg.clone()), "roundtrip/lossy", "from_paragraph(to_paragraph(x)) on the lossy back-end");
    ensure_eq!(b, Ok(dbg.clone()), "roundtrip/lossless", "from_paragraph(to_paragraph(x)) on the lossless back-end");
    // the paragraphs are real paragraphs: printed and read again they still give the value back
    if !want.is_empty() {
        let t_ll = llp.to_string();
        match LLP::from_str(&t_ll) {
            Ok(re) => {
                let (_, rb) = reparse(v, &LP { fields: vec![] }, &re);
                ensure_eq!(rb, Ok(dbg.clone()), "to-paragraph-print-reread/lossless", "the lossless to_paragraph prints {:?}, which does not read back as the value", t_ll);
            }
            Err(e) => return fail("to-paragraph-print-reread/lossless", format!("the lossless to_paragraph prints {:?}, which does not parse: {}", t_ll, e)),
        }
        let t_l = lp.to_string();
        match LP::from_str(&t_l) {
            Ok(re) => {
                let (ra, _) = reparse(v, &re, &LLP::new());
                ensure_eq!(ra, Ok(dbg.clone()), "to-paragraph-print-reread/lossy", "the lossy to_paragraph prints {:?}, which does not read back as the value", t_l);
            }
            Err(e) => return fail("to-paragraph-print-reread/lossy", format!("the lossy to_paragraph prints {:?}, which does not parse: {}", t_l, e)),
        }
    }
    // update of a prior paragraph on both back-ends
    let ptext = prior.text();
    // keep the whole document: comment lines in front of the first field belong to it, not to the paragraph node
    let mut pdoc = deb822_lossless::Deb822::from_str(&ptext).map_err(|e| crate::Failure { assertion: "infra/prior".into(), message: format!("prior paragraph {:?}: {}", ptext, e) })?;
    let mut pll = match pdoc.paragraphs().next() {
        Some(p) => p,
        None => pdoc.add_paragraph(),
    };
    let mut ply = LP { fields: prior.fields.iter().map(|(n, l, _, _)| deb822_lossless::lossy::Field { name: n.clone(), value: l.join("\n") }).collect() };
    with_value!(v, x => { x.update_paragraph(&mut pll); x.update_paragraph(&mut ply); });
    let (ua, ub) = reparse(v, &ply, &pll);
    ensure_eq!(ua, Ok(dbg.clone()), "update-reads-back/lossy", "from_paragraph after update_paragraph (lossy), prior {:?}", ptext);
    ensure_eq!(ub, Ok(dbg.clone()), "update-reads-back/lossless", "from_paragraph after update_paragraph (lossless), prior {:?} now {:?}", ptext, pll.to_string());
    let own = all_keys(v);
    for k in &own {
        let present = want.iter().any(|(n, _)| n == k);
        ensure_eq!(pll.get(k).is_some(), present, "update-presence/lossless", "field {:?} after update (absent options must be removed), text {:?}", k, pll.to_string());
        ensure_eq!(ply.get(k).is_some(), present, "update-presence/lossy", "field {:?} after update (absent options must be removed)", k);
        ensure!(pll.get_all(k).count() <= 1 && ply.iter().filter(|(n, _)| n == k).count() <= 1, "update-no-duplicates", "field {:?} occurs more than once after update: {:?}", k, pll.to_string());
    }
    // foreign fields, comments and the formatting of untouched fields
    let after = pdoc.to_string();
    for (n, lines, ws, c) in &prior.fields {
        if own.contains(&n.as_str()) {
            continue;
        }
        let mut frag = format!("{}:{}{}\n", n, ws, lines[0]);
        for l in &lines[1..] {
            frag.push_str(&format!("   {}\n", l));
        }
        ensure!(after.contains(&frag), "update-foreign-untouched/lossless", "foreign field text {:?} changed or vanished: {:?} -> {:?}", frag, ptext, after);
        let joined = lines.join("\n");
        ensure_eq!(ply.get(n).map(|s| s.to_string()), Some(joined), "update-foreign-untouched/lossy", "foreign field {:?} (lossy)", n);
        if let Some(c) = c {
            ensure!(after.contains(&format!("{}\n", c)), "update-comments-kept", "comment {:?} lost: {:?} -> {:?}", c, ptext, after);
        }
    }
    for (_, _, _, c) in &prior.fields {
        if let Some(c) = c {
            ensure!(after.lines().any(|l| l == c), "update-comments-kept", "comment {:?} lost: {:?} -> {:?}", c, ptext, after);
        }
    }
    // the updated lossless paragraph prints to text that re-reads to the same value
    if let Ok(re) = LLP::from_str(&pll.to_string()) {
        let (_, rb) = reparse(v, &LP { fields: vec![] }, &re);
        ensure_eq!(rb, Ok(dbg.clone()), "update-print-reread", "re-reading the printed updated paragraph {:?}", after);
    } else {
        return fail("update-print-reread", format!("the updated paragraph {:?} does not re-read", after));
    }
    // errors: missing mandatory field / unparsable value name the field, identically on both back-ends
    if let Some((key, bad)) = broken {
        let mut l2 = LP { fields: lp.fields.clone() };
        let mut ll2: LLP = with_value!(v, x => x.to_paragraph());
        match bad {
            None => {
                l2.remove(key);
                ll2.remove(key);
            }
            Some(b) => {
                l2.set(key, b);
                ll2.set(key, b);
            }
        }
        let (ea, eb) = reparse(v, &l2, &ll2);
        match (&ea, &eb) {
            (Err(x), Err(y)) => {
                ensure_eq!(x, y, "error-identical-on-both-backends", "error strings");
                ensure!(x.contains(key.as_str()), "error-names-field", "error {:?} does not name the field {:?}", x, key);
                if bad.is_none() {
                    ensure!(x.contains("missing"), "error-names-field", "error for a missing mandatory field: {:?}", x);
                }
            }
            _ => return fail("error-expected", format!("{} of field {:?}: lossy {:?}, lossless {:?}", if bad.is_none() { "removal" } else { "corruption" }, key, ea, eb)),
        }
    }
    Ok(())
}

// ------------------------------------------------------------------------------------------
// (b) every deriving struct shipped in the workspace, through its field table

#[derive(Debug, Clone, Copy, PartialEq, Eq)]
pub enum Shipped {
    ControlSource,
    ControlBinary,
    Release,
    AptSource,
    AptPackage,
    Removal,
    Buildinfo,
    Dep3,
    CopyrightHeader,
    CopyrightFiles,
    CopyrightLicense,
    Repository,
}
pub const SHIPPED: [Shipped; 12] = [
    Shipped::ControlSource, Shipped::ControlBinary, Shipped::Release, Shipped::AptSource, Shipped::AptPackage, Shipped::Removal, Shipped::Buildinfo, Shipped::Dep3, Shipped::CopyrightHeader,
    Shipped::CopyrightFiles, Shipped::CopyrightLicense, Shipped::Repository,
];

fn table_of(s: Shipped) -> (&'static str, &'static [Spec]) {
    match s {
        Shipped::ControlSource => ("lossy::control::Source", kinds::CONTROL_SOURCE),
        Shipped::ControlBinary => ("lossy::control::Binary", kinds::CONTROL_BINARY),
        Shipped::Release => ("lossy::apt::Release", kinds::APT_RELEASE),
        Shipped::AptSource => ("lossy::apt::Source", kinds::APT_SOURCE),
        Shipped::AptPackage => ("lossy::apt::Package", kinds::APT_PACKAGE),
        Shipped::Removal => ("lossy::ftpmaster::Removal", kinds::REMOVAL),
        Shipped::Buildinfo => ("lossy::buildinfo::Buildinfo", kinds::BUILDINFO),
        Shipped::Dep3 => ("dep3::lossy::PatchHeader", kinds::DEP3),
        Shipped::CopyrightHeader => ("copyright::lossy::Header", kinds::COPYRIGHT_HEADER),
        Shipped::CopyrightFiles => ("copyright::lossy::FilesParagraph", kinds::COPYRIGHT_FILES),
        Shipped::CopyrightLicense => ("copyright::lossy::LicenseParagraph", kinds::COPYRIGHT_LICENSE),
        Shipped::Repository => ("apt_sources::Repository", kinds::APT_SOURCES),
    }
}

/// image of T::from_paragraph(p) as the (key, text) list of its lossy / lossless to_paragraph, plus update results
fn conv<T>(lp: &LP, llp: &LLP, prior_lp: &mut LP, prior_llp: &mut LLP) -> (Result<Vec<(String, String)>, String>, Result<Vec<(String, String)>, String>, Option<(Vec<(String, String)>, Vec<(String, String)>)>)
where
    T: FromDeb822Paragraph<LP> + FromDeb822Paragraph<LLP> + ToDeb822Paragraph<LP> + ToDeb822Paragraph<LLP>,
{
    let a: Result<T, String> = FromDeb822Paragraph::<LP>::from_paragraph(lp);
    let b: Result<T, String> = FromDeb822Paragraph::<LLP>::from_paragraph(llp);
    let mut upd = None;
    if let (Ok(x), Ok(_)) = (&a, &b) {
        ToDeb822Paragraph::<LP>::update_paragraph(x, prior_lp);
        ToDeb822Paragraph::<LLP>::update_paragraph(x, prior_llp);
        // round trip through both back-ends
        let p1: LP = x.to_paragraph();
        let p2: LLP = x.to_paragraph();
        let r1: Result<T, String> = FromDeb822Paragraph::<LP>::from_paragraph(&p1);
        let r2: Result<T, String> = FromDeb822Paragraph::<LLP>::from_paragraph(&p2);
        let i1 = r1.map(|y| img_lp(&ToDeb822Paragraph::<LP>::to_paragraph(&y))).unwrap_or_else(|e| vec![("<error>".into(), e)]);
        let i2 = r2.map(|y| img_llp(&ToDeb822Paragraph::<LLP>::to_paragraph(&y))).unwrap_or_else(|e| vec![("<error>".into(), e)]);
        upd = Some((i1, i2));
    }
    (a.map(|x| img_lp(&ToDeb822Paragraph::<LP>::to_paragraph(&x))), b.map(|x| img_llp(&ToDeb822Paragraph::<LLP>::to_paragraph(&x))), upd)
}

fn conv_shipped(s: Shipped, lp: &LP, llp: &LLP, plp: &mut LP, pllp: &mut LLP) -> (Result<Vec<(String, String)>, String>, Result<Vec<(String, String)>, String>, Option<(Vec<(String, String)>, Vec<(String, String)>)>) {
    use debian_control::lossy;
    match s {
        Shipped::ControlSource => conv::<lossy::Source>(lp, llp, plp, pllp),
        Shipped::ControlBinary => conv::<lossy::Binary>(lp, llp, plp, pllp),
        Shipped::Release => conv::<lossy::apt::Release>(lp, llp, plp, pllp),
        Shipped::AptSource => conv::<lossy::apt::Source>(lp, llp, plp, pllp),
        Shipped::AptPackage => conv::<lossy::apt::Package>(lp, llp, plp, pllp),
        Shipped::Removal => conv::<lossy::ftpmaster::Removal>(lp, llp, plp, pllp),
        Shipped::Buildinfo => conv::<lossy::buildinfo::Buildinfo>(lp, llp, plp, pllp),
        Shipped::Dep3 => conv::<dep3::lossy::PatchHeader>(lp, llp, plp, pllp),
        Shipped::CopyrightHeader => conv::<debian_copyright::lossy::Header>(lp, llp, plp, pllp),
        Shipped::CopyrightFiles => conv::<debian_copyright::lossy::FilesParagraph>(lp, llp, plp, pllp),
        Shipped::CopyrightLicense => conv::<debian_copyright::lossy::LicenseParagraph>(lp, llp, plp, pllp),
        Shipped::Repository => conv::<apt_sources::Repository>(lp, llp, plp, pllp),
    }
}

fn norm(img: &[(String, String)]) -> Vec<(String, Vec<String>)> {
    img.iter()
        .map(|(k, v)| {
            if k == "Environment" || k == "Types" {
                let mut l: Vec<String> = v.split('\n').filter(|x| !x.is_empty()).map(|x| x.to_string()).collect();
                l.sort();
                (k.clone(), l)
            } else {
                (k.clone(), vec![v.clone()])
            }
        })
        .collect()
}

/// Typed reading of the DEP-3 header's custom-deserialised fields, compared with the harness's own reading of the raw
/// text (category prefix, `commit:` prefix, keywords, ISO date): images alone cannot tell `Other("commit:x")` from `Commit("x")`.
fn typed_spot_dep3(lp: &LP, gp: &GenPara) -> CheckResult {
    use dep3::{AppliedUpstream, Forwarded, Origin};
    let x: dep3::lossy::PatchHeader = match deb822_lossless::FromDeb822Paragraph::from_paragraph(lp) {
        Ok(x) => x,
        Err(_) => return Ok(()), // reported by the image checks
    };
    let raw = |name: &str| gp.fields.iter().find(|f| f.spec.name == name).map(|f| f.value.lines.join("\n"));
    if let Some(r) = raw("Origin") {
        let (cat, rest) = match r.split_once(", ") {
            Some((c, rest)) if ["backport", "vendor", "upstream", "other"].contains(&c) => (Some(c.to_string()), rest.to_string()),
            _ => (None, r.clone()),
        };
        let want = match rest.strip_prefix("commit:") {
            Some(id) => Origin::Commit(id.to_string()),
            None => Origin::Other(rest.clone()),
        };
        let got = x.origin.as_ref().map(|(c, o)| (c.as_ref().map(|c| c.to_string()), o.clone()));
        ensure_eq!(got, Some((cat, want)), "typed-value/dep3-origin", "PatchHeader.origin read from {:?}", r);
    }
    if let Some(r) = raw("Forwarded") {
        let want = match r.as_str() {
            "no" => Forwarded::No,
            "not-needed" => Forwarded::NotNeeded,
            other => Forwarded::Yes(other.to_string()),
        };
        ensure_eq!(x.forwarded.clone(), Some(want), "typed-value/dep3-forwarded", "PatchHeader.forwarded read from {:?}", r);
    }
    if let Some(r) = raw("Applied-Upstream") {
        let want = match r.strip_prefix("commit:") {
            Some(id) => AppliedUpstream::Commit(id.to_string()),
            None => AppliedUpstream::Other(r.clone()),
        };
        ensure_eq!(x.applied_upstream.clone(), Some(want), "typed-value/dep3-applied-upstream", "PatchHeader.applied_upstream read from {:?}", r);
    }
    if let Some(r) = raw("Last-Update") {
        let want = chrono::NaiveDate::parse_from_str(&r, "%Y-%m-%d").ok();
        ensure_eq!(x.last_update, want, "typed-value/dep3-last-update", "PatchHeader.last_update read from {:?}", r);
    }
    Ok(())
}

fn check_shipped(s: Shipped, gp: &GenPara, prior: &GenPara, broken: &Option<(String, Option<String>)>) -> CheckResult {
    let (tname, table) = table_of(s);
    // the paragraph as both back-ends hold it (same name/value pairs)
    let text = crate::gen::doc::Doc { paras: vec![gp.para.clone()], final_newline: true, ..Default::default() }.render().text;
    let llp = if gp.para.fields.is_empty() { LLP::new() } else { LLP::from_str(&text).map_err(|e| crate::Failure { assertion: "infra/paragraph".into(), message: format!("{:?}: {}", text, e) })? };
    let mut lp = LP { fields: llp.items().map(|(k, v)| deb822_lossless::lossy::Field { name: k, value: v }).collect() };
    let mut llp = llp;
    if let Some((key, bad)) = broken {
        match bad {
            None => {
                lp.remove(key);
                llp.remove(key);
            }
            Some(b) => {
                lp.set(key, b);
                llp.set(key, b);
            }
        }
    }
    // prior paragraph for update: another generated paragraph of the same table + foreign fields and a comment
    let mut ptext = String::from("X-Foreign-First:   keep me\n# a comment\n");
    ptext.push_str(&crate::gen::doc::Doc { paras: vec![prior.para.clone()], final_newline: true, ..Default::default() }.render().text);
    ptext.push_str("X-Foreign-Last: multi\n   line\n");
    let mut pllp = LLP::from_str(&ptext).map_err(|e| crate::Failure { assertion: "infra/prior".into(), message: format!("{:?}: {}", ptext, e) })?;
    let mut plp = LP { fields: pllp.items().map(|(k, v)| deb822_lossless::lossy::Field { name: k, value: v }).collect() };
    let (a, b, upd) = conv_shipped(s, &lp, &llp, &mut plp, &mut pllp);
    if let Some((key, bad)) = broken {
        match (&a, &b) {
            (Err(x), Err(y)) => {
                ensure_eq!(x, y, "error-identical-on-both-backends", "{}: error strings", tname);
                ensure!(x.contains(key.as_str()), "error-names-field", "{}: error {:?} does not name the field {:?}", tname, x, key);
            }
            _ => return fail("error-expected", format!("{}: {} of field {:?} accepted: lossy {:?}, lossless {:?}", tname, if bad.is_none() { "removal" } else { "corruption" }, key, a, b)),
        }
        return Ok(());
    }
    if s == Shipped::Dep3 {
        typed_spot_dep3(&lp, gp)?;
    }
    let want: Vec<(String, String)> = table.iter().filter_map(|sp| gp.fields.iter().find(|f| f.spec.name == sp.name).map(|f| (sp.name.to_string(), f.value.expected.clone()))).collect();
    let a = a.map_err(|e| crate::Failure { assertion: "from-paragraph/lossy".into(), message: format!("{}: {} (paragraph {:?})", tname, e, text) })?;
    let b = b.map_err(|e| crate::Failure { assertion: "from-paragraph/lossless".into(), message: format!("{}: {} (paragraph {:?})", tname, e, text) })?;
    ensure_eq!(norm(&a), norm(&want), "to-paragraph/lossy", "{}: lossy image (declaration order, configured names, codec text) of {:?}", tname, text);
    ensure_eq!(norm(&b), norm(&want), "to-paragraph/lossless", "{}: lossless image of {:?}", tname, text);
    let (r1, r2) = upd.unwrap();
    ensure_eq!(norm(&r1), norm(&want), "roundtrip/lossy", "{}: from_paragraph(to_paragraph(x)) on the lossy back-end", tname);
    ensure_eq!(norm(&r2), norm(&want), "roundtrip/lossless", "{}: from_paragraph(to_paragraph(x)) on the lossless back-end", tname);
    // after update the prior paragraphs read back as x; own absent fields are gone; foreign fields untouched
    let mut d1 = LP { fields: vec![] };
    let mut d2 = LLP::new();
    let (ua, ub, _) = conv_shipped(s, &plp, &pllp, &mut d1, &mut d2);
    ensure_eq!(ua.map(|x| norm(&x)), Ok(norm(&want)), "update-reads-back/lossy", "{}: from_paragraph after update_paragraph (lossy)", tname);
    ensure_eq!(ub.map(|x| norm(&x)), Ok(norm(&want)), "update-reads-back/lossless", "{}: from_paragraph after update_paragraph (lossless): {:?} -> {:?}", tname, ptext, pllp.to_string());
    for sp in table {
        let present = want.iter().any(|(n, _)| n == sp.name);
        ensure_eq!(pllp.get(sp.name).is_some(), present, "update-presence/lossless", "{}: field {:?} after update: {:?}", tname, sp.name, pllp.to_string());
        ensure_eq!(plp.get(sp.name).is_some(), present, "update-presence/lossy", "{}: field {:?} after update", tname, sp.name);
    }
    let after = pllp.to_string();
    ensure!(after.starts_with("X-Foreign-First:   keep me\n# a comment\n") && after.contains("X-Foreign-Last: multi\n   line\n"), "update-foreign-untouched/lossless", "{}: foreign fields / comment changed: {:?} -> {:?}", tname, ptext, after);
    ensure!(plp.get("X-Foreign-First") == Some("keep me") && plp.get("X-Foreign-Last") == Some("multi\nline"), "update-foreign-untouched/lossy", "{}: foreign fields changed (lossy)", tname);
    Ok(())
}

// ------------------------------------------------------------------------------------------

pub enum Case {
    Matrix { v: Value, prior: Prior, broken: Option<(String, Option<String>)> },
    Shipped { s: Shipped, gp: GenPara, prior: GenPara, broken: Option<(String, Option<String>)> },
}

fn gen_string(t: &mut Tape) -> String {
    if t.chance(1, 8) {
        return String::new();
    }
    // representable through both back-ends and through printing: non-empty lines without leading/trailing whitespace
    let mut lines = vec![crate::gen::doc::gen_line(t, false, false, true)];
    while t.more(lines.len(), 1, 3, 1, 4) {
        lines.push(crate::gen::doc::gen_line(t, true, false, true));
    }
    lines.iter().map(|l| l.trim_matches(|c| c == ' ' || c == '\t').to_string()).map(|l| if l.is_empty() { "x".to_string() } else { l }).collect::<Vec<_>>().join("\n")
}
fn gen_color(t: &mut Tape) -> Color {
    *t.pick(&[Color::Red, Color::Green, Color::DarkBlue])
}
fn gen_items(t: &mut Tape) -> Vec<String> {
    let mut v = vec![];
    while t.more(v.len(), 0, 3, 2, 3) {
        v.push(t.pick(&["a", "b c", "x-1", "é"]).to_string());
    }
    v
}
fn opt<T>(t: &mut Tape, f: impl FnOnce(&mut Tape) -> T) -> Option<T> {
    if t.flag() {
        Some(f(t))
    } else {
        None
    }
}
fn gen_i32(t: &mut Tape) -> i32 {
    *t.pick(&[0, 1, -1, 42, i32::MAX, i32::MIN, 7])
}
fn gen_u64(t: &mut Tape) -> u64 {
    *t.pick(&[0, 1, 3524, u64::MAX, 1 << 40])
}

fn gen_matrix_value(t: &mut Tape) -> Value {
    match t.below(3) {
        0 => Value::S1(S1 {
            name: gen_string(t),
            count: gen_i32(t),
            big: gen_u64(t),
            flag: t.flag(),
            opt_name: opt(t, gen_string),
            opt_count: opt(t, gen_i32),
            opt_flag: opt(t, |t| t.flag()),
            colour: gen_color(t),
            opt_colour: opt(t, gen_color),
            other_colour: opt(t, gen_color),
            plain_colour: gen_color(t),
            r#type: opt(t, gen_string),
        }),
        1 => Value::S2(S2 {
            items: gen_items(t),
            more: gen_items(t),
            opt_items: opt(t, gen_items),
            opt_more: opt(t, gen_items),
            enabled: t.flag(),
            opt_enabled: opt(t, |t| t.flag()),
            shade: gen_color(t),
            opt_shade: opt(t, gen_color),
        }),
        _ => Value::S3(S3 {
            delta: gen_i32(t),
            delta2: gen_i32(t),
            opt_delta: opt(t, gen_i32),
            opt_delta2: opt(t, gen_i32),
            size: gen_u64(t),
            size2: gen_u64(t),
            opt_size: opt(t, gen_u64),
            opt_size2: opt(t, gen_u64),
            tint: gen_color(t),
            opt_tint: opt(t, gen_color),
            words: String2(gen_items(t)),
            opt_words: opt(t, |t| String2(gen_items(t))),
        }),
    }
}

/// Value lines that differ from `val` at most in white space.
fn ws_variant(t: &mut Tape, val: &str) -> Vec<String> {
    let mut lines: Vec<String> = val.split('\n').map(|l| l.to_string()).collect();
    let with_blank: Vec<usize> = (0..lines.len()).filter(|&i| lines[i].trim_matches(' ').contains(' ')).collect();
    match t.below(3) {
        0 if !with_blank.is_empty() => {
            let i = with_blank[t.below(with_blank.len())];
            let at = lines[i].trim_end_matches(' ').rfind(' ').unwrap();
            lines[i].insert(at, ' ');
        }
        1 if !with_blank.is_empty() => {
            let i = with_blank[t.below(with_blank.len())];
            let at = lines[i].trim_end_matches(' ').rfind(' ').unwrap();
            let rest = lines[i][at + 1..].to_string();
            if !rest.is_empty() && !rest.starts_with('#') && !lines[i][..at].trim_matches(' ').is_empty() {
                lines[i].truncate(at);
                lines.insert(i + 1, rest);
            }
        }
        2 if lines.len() >= 2 && !lines[0].is_empty() => {
            let second = lines.remove(1);
            lines[0] = format!("{} {}", lines[0], second);
        }
        _ => {}
    }
    // keep the prior inside the document domain
    for i in 1..lines.len() {
        if lines[i].is_empty() || lines[i].starts_with('#') {
            return vec!["stale".to_string()];
        }
    }
    lines
}

fn gen_prior(t: &mut Tape, v: &Value) -> Prior {
    let mut fields: Vec<(String, Vec<String>, String, Option<String>)> = vec![];
    let own = all_keys(v);
    let exp = expected_fields(v);
    let mut n_foreign = 0;
    while t.more(fields.len(), 0, 6, 3, 4) {
        let comment = if t.chance(1, 4) { Some(format!("# comment {}", fields.len())) } else { None };
        let ws = t.pick(&[" ", "", "   ", "\t"]).to_string();
        if t.chance(1, 6) {
            // a field whose name differs from one of the struct's keys only in letter case: names are compared exactly by
            // both paragraph types, so this is a foreign field (placed before or after the real key as the tape decides)
            let k = t.pick(&own).to_string();
            let variant = if t.flag() { k.to_lowercase() } else { k.to_uppercase() };
            if variant != k && fields.iter().all(|f| f.0 != variant) {
                fields.push((variant, vec![format!("case variant {}", fields.len())], ws, comment));
            }
        } else if t.chance(1, 2) {
            n_foreign += 1;
            let mut lines = vec![format!("foreign value {}", n_foreign)];
            if t.chance(1, 3) {
                lines.push("second line".into());
            }
            fields.push((format!("X-Foreign-{}", n_foreign), lines, ws, comment));
        } else {
            let k = t.pick(&own).to_string();
            if fields.iter().all(|f| f.0 != k) {
                // the stale value is unrelated, or differs from the value about to be written only in white space
                // (doubled blank, a blank turned into a line break, two lines joined), or is that very value
                let lines = match exp.iter().find(|(n, _)| *n == k) {
                    Some((_, val)) if t.flag() => ws_variant(t, val),
                    _ => vec!["stale".to_string()],
                };
                fields.push((k, lines, ws, comment));
            }
        }
    }
    Prior { fields }
}

fn bad_value_for(fam: Fam) -> Option<&'static str> {
    match fam {
        Fam::UInt => Some("x1"),
        Fam::Version => Some("a b"),
        Fam::Url => Some("not a url"),
        Fam::Priority | Fam::MultiArch => Some("bogus"),
        Fam::Date => Some("2024-13-45"),
        Fam::BoolTF => Some("maybe"),
        Fam::YesNo | Fam::YesNoForce => Some("perhaps"),
        Fam::Rel => Some("a (>= "),
        Fam::RepoTypes => Some("rpm"),
        Fam::Urls => Some("::"),
        Fam::Env => Some("novalue"),
        _ => None,
    }
}

impl PropImpl for C16 {
    type Case = Case;
    fn id(&self) -> &'static str {
        "C16"
    }
    fn rule(&self) -> String {
        "cases are (a) values of three harness structs that instantiate every shape the derive macro distinguishes ({mandatory, Option} x {default key, field=\"..\"} x {default, serialize_with, deserialize_with, \
         both}) over scalar (String, i32, u64, bool), enum (FromStr+Display) and list (custom codec) types, and (b) paragraphs generated from the field tables of all 12 deriving structs shipped in the workspace; each with a \
         prior paragraph (foreign fields, comments, odd spacing, stale own fields) for update_paragraph and, optionally, one corruption (a mandatory field removed / a typed value made unparsable). Both back-ends \
         (lossy and lossless paragraphs) must give identical images, round trips, update results and error strings. Non-trivial: a value with present and absent options, or an update on a prior paragraph with \
         foreign fields. Distinct by hash of the case.".into()
    }
    fn assumptions(&self) -> Vec<String> {
        vec!["the 'programs' quantifier is covered by a fixed, shape-complete matrix of compiled structs plus all shipped structs (a proc-macro needs a compile per definition)".into()]
    }
    fn expected_labels(&self) -> Vec<&'static str> {
        vec!["error:missing-mandatory", "error:unparsable-value", "matrix:S1-default-codecs", "matrix:S2-both-custom-codecs", "matrix:S3-one-sided-codecs", "shipped:Buildinfo", "shipped:Removal", "shipped:apt::Package", "shipped:apt::Release", "shipped:apt::Source", "shipped:apt_sources::Repository", "shipped:control::Binary", "shipped:control::Source", "shipped:copyright::FilesParagraph", "shipped:copyright::Header", "shipped:copyright::LicenseParagraph", "shipped:dep3::PatchHeader", "update:prior-has-case-variant-of-own-field", "update:prior-has-comments", "update:prior-has-foreign-fields", "update:prior-has-stale-own-fields", "update:stale-value-differs-only-in-white-space", "update:stale-value-equals-new-value"]
    }
    fn budget(&self, tier: Tier) -> Budget {
        Budget { cases_per_lane: if tier == Tier::Quick { 30000 } else { 120000 }, tape_max: 500, cpu_s: 10 }
    }
    fn spaces(&self, _tier: Tier) -> Vec<Space> {
        vec![]
    }
    fn decode(&self, _ctx: &mut Ctx, t: &mut Tape) -> Case {
        if t.flag() {
            let v = gen_matrix_value(t);
            let prior = gen_prior(t, &v);
            let broken = if t.chance(1, 4) {
                if t.flag() {
                    Some((t.pick(&mandatory_keys(&v)).to_string(), None))
                } else {
                    Some((t.pick(&typed_keys(&v)).to_string(), Some("@@bad@@".to_string())))
                }
            } else {
                None
            };
            // corrupting an absent optional field makes it present: fine, it must then fail to parse
            Case::Matrix { v, prior, broken }
        } else {
            let s = SHIPPED[t.below(SHIPPED.len())];
            let (_, table) = table_of(s);
            let gp = kinds::gen_para(t, "shipped", table, None, false);
            let prior = kinds::gen_para(t, "prior", table, None, false);
            let broken = if t.chance(1, 4) {
                let mand: Vec<&Spec> = table.iter().filter(|sp| sp.mandatory).collect();
                let typed: Vec<&Spec> = gp.fields.iter().map(|f| &f.spec).filter(|sp| bad_value_for(sp.fam).is_some()).collect();
                if t.flag() && !mand.is_empty() {
                    Some((t.pick(&mand).name.to_string(), None))
                } else if !typed.is_empty() {
                    let sp = *t.pick(&typed);
                    Some((sp.name.to_string(), Some(bad_value_for(sp.fam).unwrap().to_string())))
                } else {
                    None
                }
            } else {
                None
            };
            Case::Shipped { s, gp, prior, broken }
        }
    }
    fn classify(&self, ctx: &mut Ctx, case: &Case) {
        match case {
            Case::Matrix { v, prior, broken } => {
                ctx.set_hash(&(format!("{:?}", v), format!("{:?}", prior), format!("{:?}", broken)));
                ctx.label(match v {
                    Value::S1(_) => "matrix:S1-default-codecs",
                    Value::S2(_) => "matrix:S2-both-custom-codecs",
                    Value::S3(_) => "matrix:S3-one-sided-codecs",
                });
                let n_present = expected_fields(v).len();
                let n_all = all_keys(v).len();
                ctx.label_if(prior.fields.iter().any(|f| f.0.starts_with("X-Foreign")), "update:prior-has-foreign-fields");
                ctx.label_if(prior.fields.iter().any(|f| f.3.is_some()), "update:prior-has-comments");
                ctx.label_if(prior.fields.iter().any(|f| !all_keys(v).contains(&f.0.as_str()) && all_keys(v).iter().any(|k| k.eq_ignore_ascii_case(&f.0))), "update:prior-has-case-variant-of-own-field");
                ctx.label_if(prior.fields.iter().any(|f| all_keys(v).contains(&f.0.as_str())), "update:prior-has-stale-own-fields");
                {
                    let exp = expected_fields(v);
                    let squash = |s: &str| s.split_whitespace().collect::<Vec<_>>().join(" ");
                    ctx.label_if(prior.fields.iter().any(|f| exp.iter().any(|(n, val)| *n == f.0 && f.1.join("\n") != *val && squash(&f.1.join("\n")) == squash(val))), "update:stale-value-differs-only-in-white-space");
                    ctx.label_if(prior.fields.iter().any(|f| exp.iter().any(|(n, val)| *n == f.0 && f.1.join("\n") == *val)), "update:stale-value-equals-new-value");
                }
                match broken {
                    Some((_, None)) => ctx.label("error:missing-mandatory"),
                    Some((_, Some(_))) => ctx.label("error:unparsable-value"),
                    None => {}
                }
                ctx.nontrivial = (n_present < n_all && n_present > mandatory_keys(v).len()) || prior.fields.iter().any(|f| f.0.starts_with("X-Foreign"));
            }
            Case::Shipped { s, gp, prior, broken } => {
                ctx.set_hash(&(format!("{:?}", s), format!("{:?}", gp.para), format!("{:?}", prior.para), format!("{:?}", broken)));
                ctx.label(match s {
                    Shipped::ControlSource => "shipped:control::Source",
                    Shipped::ControlBinary => "shipped:control::Binary",
                    Shipped::Release => "shipped:apt::Release",
                    Shipped::AptSource => "shipped:apt::Source",
                    Shipped::AptPackage => "shipped:apt::Package",
                    Shipped::Removal => "shipped:Removal",
                    Shipped::Buildinfo => "shipped:Buildinfo",
                    Shipped::Dep3 => "shipped:dep3::PatchHeader",
                    Shipped::CopyrightHeader => "shipped:copyright::Header",
                    Shipped::CopyrightFiles => "shipped:copyright::FilesParagraph",
                    Shipped::CopyrightLicense => "shipped:copyright::LicenseParagraph",
                    Shipped::Repository => "shipped:apt_sources::Repository",
                });
                match broken {
                    Some((_, None)) => ctx.label("error:missing-mandatory"),
                    Some((_, Some(_))) => ctx.label("error:unparsable-value"),
                    None => {}
                }
                ctx.nontrivial = true;
            }
        }
    }
    fn check(&self, _ctx: &mut Ctx, case: &Case) -> CheckResult {
        match case {
            Case::Matrix { v, prior, broken } => check_matrix(v, prior, broken),
            Case::Shipped { s, gp, prior, broken } => check_shipped(*s, gp, prior, broken),
        }
    }
    fn render(&self, case: &Case) -> String {
        match case {
            Case::Matrix { v, prior, broken } => format!("value {:?}\nprior paragraph {:?}\ncorruption {:?}", v, prior.text(), broken),
            Case::Shipped { s, gp, prior, broken } => format!(
                "{:?}\nparagraph {:?}\nprior {:?}\ncorruption {:?}",
                s,
                crate::gen::doc::Doc { paras: vec![gp.para.clone()], final_newline: true, ..Default::default() }.render().text,
                crate::gen::doc::Doc { paras: vec![prior.para.clone()], final_newline: true, ..Default::default() }.render().text,
                broken
            ),
        }
    }
}
