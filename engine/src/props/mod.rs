pub mod c01;
pub mod c09;

use crate::Prop;

pub fn lookup(id: &str) -> Option<Box<dyn Prop>> {
    Some(match id {
        "C01" => Box::new(c01::C01),
        "C09" => Box::new(c09::C09),
        _ => return None,
    })
}

pub const ALL: &[&str] = &["C01"];
