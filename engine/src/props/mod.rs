pub mod c01;

use crate::Prop;

pub fn lookup(id: &str) -> Option<Box<dyn Prop>> {
    Some(match id {
        "C01" => Box::new(c01::C01),
        _ => return None,
    })
}

pub const ALL: &[&str] = &["C01"];
