//! C20 Typed lossy documents are stable under print/reparse and match the lossless view.
use crate::gen::kinds::{self, GenPara, Spec};
use crate::tape::Tape;
use crate::{ensure, ensure_eq, fail, Budget, CheckResult, Ctx, PropImpl, Space, Tier};
use deb822_lossless::lossy::Paragraph as LP;
use deb822_lossless::{Deb822, FromDeb822Paragraph, ToDeb822Paragraph};
use std::str::FromStr;

pub struct C20;

#[derive(Debug, Clone, Copy, PartialEq, Eq)]
pub enum Kind {
    Control,
    Copyright,
    Release,
    AptSource,
    AptPackage,
    Removal,
    Buildinfo,
    Dep3,
    AptSources,
}

pub const KINDS: [Kind; 9] = [Kind::Control, Kind::Copyright, Kind::Release, Kind::AptSource, Kind::AptPackage, Kind::Removal, Kind::Buildinfo, Kind::Dep3, Kind::AptSources];

pub struct Case {
    pub kind: Kind,
    pub text: String,
    /// expected per-paragraph images in the order the typed value lists them; None for structurally invalid variants
    pub expected: Option<Vec<Vec<(String, String, bool)>>>,
    pub invalid: Option<&'static str>,
    pub nparas: usize,
    pub multiline: bool,
    /// Some(how): the text is a perturbed document; only the clause "whenever a text parses, print -> reparse is equal and
    /// the second print identical" applies (the reader may as well reject it)
    pub any_text: Option<&'static str>,
}

type Image = Vec<(String, String)>;

fn image(p: &LP) -> Image {
    p.iter().map(|(k, v)| (k.to_string(), v.to_string())).collect()
}

pub struct Typed {
    pub print: String,
    pub images: Vec<Image>,
}

/// Parse `text` as a typed lossy document of the given kind and return its print and per-paragraph images.
pub fn parse_kind(kind: Kind, text: &str) -> Result<Typed, String> {
    use debian_control::lossy;
    Ok(match kind {
        Kind::Control => {
            let c = lossy::Control::from_str(text)?;
            let mut images = vec![image(&c.source.to_paragraph())];
            images.extend(c.binaries.iter().map(|b| image(&b.to_paragraph())));
            Typed { print: c.to_string(), images }
        }
        Kind::Copyright => {
            let c = debian_copyright::lossy::Copyright::from_str(text)?;
            let mut images = vec![image(&c.header.to_paragraph())];
            images.extend(c.files.iter().map(|f| image(&f.to_paragraph())));
            images.extend(c.licenses.iter().map(|f| image(&f.to_paragraph())));
            Typed { print: c.to_string(), images }
        }
        Kind::Release => {
            let p = LP::from_str(text).map_err(|e| e.to_string())?;
            let r: lossy::apt::Release = FromDeb822Paragraph::from_paragraph(&p)?;
            let out: LP = r.to_paragraph();
            Typed { print: out.to_string(), images: vec![image(&out)] }
        }
        Kind::AptSource => {
            let s = lossy::apt::Source::from_str(text)?;
            Typed { print: s.to_string(), images: vec![image(&s.to_paragraph())] }
        }
        Kind::AptPackage => {
            let s = lossy::apt::Package::from_str(text)?;
            Typed { print: s.to_string(), images: vec![image(&s.to_paragraph())] }
        }
        Kind::Removal => {
            let r = lossy::ftpmaster::Removal::from_str(text)?;
            let out: LP = r.to_paragraph();
            Typed { print: out.to_string(), images: vec![image(&out)] }
        }
        Kind::Buildinfo => {
            let r = lossy::buildinfo::Buildinfo::from_str(text)?;
            let out: LP = r.to_paragraph();
            Typed { print: out.to_string(), images: vec![image(&out)] }
        }
        Kind::Dep3 => {
            let h = dep3::lossy::PatchHeader::from_str(text)?;
            Typed { print: h.to_string(), images: vec![image(&h.to_paragraph())] }
        }
        Kind::AptSources => {
            let r = apt_sources::Repositories::from_str(text)?;
            Typed { print: r.to_string(), images: r.iter().map(|x| image(&x.to_paragraph())).collect() }
        }
    })
}

fn lines_set(v: &str) -> Vec<String> {
    let mut l: Vec<String> = v.split('\n').filter(|x| !x.is_empty()).map(|x| x.to_string()).collect();
    l.sort();
    l
}

pub fn check(case: &Case) -> CheckResult {
    check_ctx(None, case)
}

pub fn check_ctx(ctx: Option<&mut Ctx>, case: &Case) -> CheckResult {
    let kind = case.kind;
    let text = &case.text;
    let parsed = parse_kind(kind, text);
    if case.any_text.is_some() {
        let v = match parsed {
            Ok(v) => v,
            Err(_) => {
                if let Some(c) = ctx {
                    c.label("any-text:rejected");
                }
                return Ok(());
            }
        };
        if let Some(c) = ctx {
            c.label("any-text:accepted");
        }
        keywords_are_those_written(kind, text, &v)?;
        return stability(kind, text, &v);
    }
    if let Some(why) = case.invalid {
        ensure!(parsed.is_err(), format!("rejects/{}", why), "{:?} document violating a structural rule ({}) is accepted: {:?}", kind, why, text);
        return Ok(());
    }
    let v = match parsed {
        Ok(v) => v,
        Err(e) => return fail("accepts-well-formed", format!("{:?} reader rejects a well-formed document: {}\n{:?}", kind, e, text)),
    };
    // field by field: what the lossless reader shows, read through the type's codec
    let expected = case.expected.as_ref().unwrap();
    ensure_eq!(v.images.len(), expected.len(), "paragraph-roles", "number of typed paragraphs for {:?}", text);
    for (pi, (img, exp)) in v.images.iter().zip(expected.iter()).enumerate() {
        let names: Vec<&String> = img.iter().map(|x| &x.0).collect();
        let enames: Vec<&String> = exp.iter().map(|x| &x.0).collect();
        ensure_eq!(names, enames, "fields-present-in-declaration-order", "fields of typed paragraph {} of {:?}", pi, text);
        for ((n, got), (_, want, unordered)) in img.iter().zip(exp.iter()) {
            if *unordered {
                ensure_eq!(lines_set(got), lines_set(want), "field-value", "field {:?} of paragraph {} (as a set of lines) in {:?}", n, pi, text);
            } else {
                ensure_eq!(got, want, "field-value", "field {:?} of paragraph {} in {:?}", n, pi, text);
            }
        }
    }
    // sanity of the generator against the lossless reader (the raw values are what it shows)
    ensure!(Deb822::from_str(text).is_ok(), "lossless-accepts", "the lossless reader rejects the well-formed document {:?}", text);
    stability(kind, text, &v)
}

/// Fields of a kind whose type is a closed set of keywords written verbatim (yes/no, true/false, priorities, multi-arch values)
fn keyword_fields(kind: Kind) -> Vec<&'static str> {
    use crate::gen::kinds::{self as k, Fam};
    let tables: Vec<&'static [Spec]> = match kind {
        Kind::Control => vec![k::CONTROL_SOURCE, k::CONTROL_BINARY],
        Kind::Copyright => vec![],
        Kind::Release => vec![k::APT_RELEASE],
        Kind::AptSource => vec![k::APT_SOURCE],
        Kind::AptPackage => vec![k::APT_PACKAGE],
        Kind::Removal => vec![],
        Kind::Buildinfo => vec![],
        Kind::Dep3 => vec![],
        Kind::AptSources => vec![k::APT_SOURCES],
    };
    tables.iter().flat_map(|t| t.iter()).filter(|s| matches!(s.fam, Fam::YesNo | Fam::BoolTF | Fam::YesNoForce | Fam::Priority | Fam::MultiArch)).map(|s| s.name).collect()
}

/// A keyword the typed value reports must be the keyword that is written in the text (up to letter case): a reader may
/// reject other words, but not turn them into a keyword of its own choice.
fn keywords_are_those_written(kind: Kind, text: &str, v: &Typed) -> CheckResult {
    let kf = keyword_fields(kind);
    if kf.is_empty() {
        return Ok(());
    }
    let doc = match Deb822::from_str(text) {
        Ok(d) => d,
        Err(_) => return Ok(()),
    };
    for img in &v.images {
        for (name, value) in img {
            if kf.contains(&name.as_str()) {
                let written = doc.paragraphs().any(|p| p.get_all(name).any(|raw| raw.trim().eq_ignore_ascii_case(value.trim())));
                ensure!(written, "keyword-is-the-one-written", "the typed {:?} value reports {}: {:?}, but no {} field of the text {:?} holds that word", kind, name, value, name, text);
            }
        }
    }
    Ok(())
}

/// print / reparse stability of a typed value that was read from `text`
fn stability(kind: Kind, text: &str, v: &Typed) -> CheckResult {
    let s1 = &v.print;
    let v2 = match parse_kind(kind, s1) {
        Ok(v2) => v2,
        Err(e) => return fail("reparse-accepts", format!("the printed {:?} value does not parse: {}\nprinted: {:?}\nfrom: {:?}", kind, e, s1, text)),
    };
    let norm = |imgs: &Vec<Image>| -> Vec<Vec<(String, Vec<String>)>> {
        imgs.iter().map(|i| i.iter().map(|(k, val)| (k.clone(), if k == "Environment" || k == "Types" { lines_set(val) } else { vec![val.clone()] })).collect()).collect()
    };
    ensure_eq!(norm(&v2.images), norm(&v.images), "reparse-equal", "value re-read from its print {:?}", s1);
    // map-valued fields print in unspecified order; the second print must be identical whenever no such field is present
    let has_map = v.images.iter().flatten().any(|(k, val)| (k == "Environment" || k == "Types") && val.matches('\n').count() >= 1);
    if !has_map {
        ensure_eq!(&v2.print, s1, "second-print-identical", "second print");
    }
    Ok(())
}

fn expected_of(p: &GenPara, table: &'static [Spec]) -> Vec<(String, String, bool)> {
    // declaration order
    table.iter().filter_map(|s| p.fields.iter().find(|f| f.spec.name == s.name).map(|f| (s.name.to_string(), f.value.expected.clone(), f.value.unordered_lines))).collect()
}

pub fn gen_case(t: &mut Tape, kind: Kind, invalid: bool) -> Case {
    use kinds::*;
    let mut inv: Option<&'static str> = None;
    let mut paras: Vec<GenPara> = vec![];
    let mut expected: Vec<Vec<(String, String, bool)>> = vec![];
    let single = |t: &mut Tape, name: &'static str, table: &'static [Spec], inv: &mut Option<&'static str>, invalid: bool| -> GenPara {
        let mand: Vec<usize> = table.iter().enumerate().filter(|(_, s)| s.mandatory).map(|(i, _)| i).collect();
        let drop = if invalid && !mand.is_empty() {
            *inv = Some("missing-mandatory-field");
            Some(*t.pick(&mand))
        } else {
            None
        };
        gen_para(t, name, table, drop, true)
    };
    match kind {
        Kind::Control => {
            let nbin = t.range(0, 4);
            let mode = if invalid { 1 + t.below(4) } else { 0 };
            let src_pos = t.below(nbin + 1);
            let mut src: Option<GenPara> = None;
            let mut bins: Vec<GenPara> = vec![];
            for i in 0..=nbin {
                if i == src_pos {
                    if mode == 1 {
                        inv = Some("no-source-paragraph");
                        continue;
                    }
                    let p = gen_para(t, "source", CONTROL_SOURCE, if mode == 3 { Some(0) } else { None }, true);
                    if mode == 3 {
                        inv = Some("paragraph-of-neither-kind");
                    }
                    src = Some(p.clone());
                    paras.push(p);
                    if mode == 2 {
                        inv = Some("two-source-paragraphs");
                        paras.push(gen_para(t, "source", CONTROL_SOURCE, None, true));
                    }
                } else {
                    let p = gen_para(t, "binary", CONTROL_BINARY, None, true);
                    bins.push(p.clone());
                    paras.push(p);
                }
            }
            if mode == 4 {
                inv = Some("paragraph-of-neither-kind");
                let mut p = gen_para(t, "binary", CONTROL_BINARY, Some(0), true);
                if p.para.fields.is_empty() {
                    p.para.fields.push(crate::gen::doc::Field::simple("Architecture", "any"));
                }
                paras.push(p);
            }
            if mode == 1 && paras.is_empty() {
                paras.push(gen_para(t, "binary", CONTROL_BINARY, None, true));
            }
            if let Some(s) = &src {
                expected.push(expected_of(s, CONTROL_SOURCE));
            }
            for b in &bins {
                expected.push(expected_of(b, CONTROL_BINARY));
            }
        }
        Kind::Copyright => {
            let mode = if invalid { 1 + t.below(3) } else { 0 };
            let h = gen_para(t, "header", COPYRIGHT_HEADER, None, false);
            let mut files = vec![];
            let mut lics = vec![];
            paras.push(h.clone());
            let n = t.range(0, 4);
            for _ in 0..n {
                if t.chance(2, 3) {
                    let dropf = if mode == 2 && files.is_empty() { Some(1 + t.below(2)) } else { None };
                    let p = gen_para(t, "files", COPYRIGHT_FILES, dropf, true);
                    if mode == 2 && files.is_empty() {
                        inv = Some("missing-mandatory-field");
                    }
                    files.push(p.clone());
                    paras.push(p);
                } else {
                    let p = gen_para(t, "license", COPYRIGHT_LICENSE, None, true);
                    lics.push(p.clone());
                    paras.push(p);
                }
            }
            if mode == 2 && inv.is_none() {
                inv = Some("missing-mandatory-field");
                paras.push(gen_para(t, "files", COPYRIGHT_FILES, Some(2), true));
            }
            if mode == 3 {
                inv = Some("paragraph-of-neither-kind");
                let mut p = gen_para(t, "license", COPYRIGHT_LICENSE, Some(0), true);
                if p.para.fields.is_empty() {
                    p.para.fields.push(crate::gen::doc::Field::simple("Comment", "x"));
                }
                paras.push(p);
            }
            if mode == 1 {
                inv = Some("not-starting-with-format");
            }
            expected.push(expected_of(&h, COPYRIGHT_HEADER));
            for f in &files {
                expected.push(expected_of(f, COPYRIGHT_FILES));
            }
            for l in &lics {
                expected.push(expected_of(l, COPYRIGHT_LICENSE));
            }
        }
        Kind::AptSources => {
            let n = t.range(1, 3);
            for i in 0..n {
                let p = if i == 0 { single(t, "repository", APT_SOURCES, &mut inv, invalid) } else { gen_para(t, "repository", APT_SOURCES, None, true) };
                expected.push(expected_of(&p, APT_SOURCES));
                paras.push(p);
            }
        }
        k => {
            let (name, table): (&'static str, &'static [Spec]) = match k {
                Kind::Release => ("release", APT_RELEASE),
                Kind::AptSource => ("apt-source", APT_SOURCE),
                Kind::AptPackage => ("apt-package", APT_PACKAGE),
                Kind::Removal => ("removal", REMOVAL),
                Kind::Buildinfo => ("buildinfo", BUILDINFO),
                _ => ("dep3", DEP3),
            };
            let mut p = single(t, name, table, &mut inv, invalid && k != Kind::Dep3);
            let mut exp = expected_of(&p, table);
            if k == Kind::Dep3 {
                // the mail-header forms: From stands in for Author, Subject for Description
                for (from, to) in [("From", "Author"), ("Subject", "Description")] {
                    let has = p.para.fields.iter().any(|f| f.name == to);
                    if has && t.chance(1, 2) {
                        for f in p.para.fields.iter_mut() {
                            if f.name == to {
                                f.name = from.to_string();
                            }
                        }
                    } else if has && t.chance(1, 4) {
                        // both present: the explicit field wins
                        p.para.fields.push(crate::gen::doc::Field::simple(from, "Ignored <i@x>"));
                    }
                }
                if p.para.fields.is_empty() {
                    p.para.fields.push(crate::gen::doc::Field::simple("Author", "A <a@b>"));
                    exp.push(("Author".into(), "A <a@b>".into(), false));
                    exp.sort_by_key(|e| DEP3.iter().position(|s| s.name == e.0));
                }
            }
            expected.push(exp);
            paras.push(p);
        }
    }
    let layout = kind != Kind::Copyright;
    let d = assemble(t, &paras, layout);
    let mut text = d.render().text;
    if inv == Some("not-starting-with-format") {
        text = match t.below(3) {
            0 => format!("\n{}", text),
            1 => format!("# comment\n{}", text),
            _ => text.replacen("Format:", "Format-Specification:", 1),
        };
    }
    let multiline = paras.iter().any(|p| p.fields.iter().any(|f| f.value.lines.len() > 1));
    Case { kind, text, expected: if inv.is_some() { None } else { Some(expected) }, invalid: inv, nparas: paras.len(), multiline, any_text: None }
}

/// Known finding: a typed printer puts a list item starting with '#' at the start of a continuation line, where every
/// reader takes it for a comment (same root cause as KF-C07-hash-line).
pub const KF_HASH_LINE: &str = "KF-C20-hash-line";

const PERTURBATIONS: &[&str] = &["any-text:random-edits", "any-text:whitespace-only-continuation-line", "any-text:indented-hash-line", "any-text:value-of-another-field", "any-text:folded-value", "any-text:duplicated-field", "any-text:crlf", "any-text:cut", "any-text:multibyte-value", "any-text:hash-token-inside-a-value", "any-text:near-miss-word-in-a-keyword-field"];

/// A perturbed document of the given kind: mostly still accepted by the typed reader, no longer "well-formed" in
/// the sense of the field tables.
pub fn perturb(t: &mut Tape, kind: Kind, avoid_hash: bool, excluded: &mut u32) -> Case {
    let base = gen_case(t, kind, false);
    let mut how = t.below(PERTURBATIONS.len());
    if how == 9 && avoid_hash {
        // the trigger of the listed finding KF-C20-hash-line is excluded by construction (two lanes still generate it)
        how = 4;
        *excluded += 1;
    }
    let lines: Vec<String> = base.text.split_inclusive('\n').map(|s| s.to_string()).collect();
    let text = match how {
        0 => crate::gen::text::mutate(t, &base.text, crate::props::c01::WEIGHTED, 3),
        1 | 2 if !lines.is_empty() => {
            let at = t.range(1, lines.len());
            let ins = if how == 1 { *t.pick(&[" \n", "\t\n", "   \n", " \t \n"]) } else { *t.pick(&[" # note\n", " #\n", "\t#x\n", " #a b\n"]) };
            let mut l = lines.clone();
            if !l[at - 1].ends_with('\n') {
                l[at - 1].push('\n');
            }
            l.insert(at, ins.to_string());
            l.concat()
        }
        3 if lines.len() >= 2 => {
            // the value of field i becomes the value of field j
            let fl: Vec<usize> = (0..lines.len()).filter(|&i| !lines[i].starts_with([' ', '\t', '#', '\n']) && lines[i].contains(':')).collect();
            if fl.len() < 2 {
                base.text.clone()
            } else {
                let i = fl[t.below(fl.len())];
                let j = fl[t.below(fl.len())];
                let mut l = lines.clone();
                let vi = l[j][l[j].find(':').unwrap() + 1..].to_string();
                let ni = l[i][..l[i].find(':').unwrap() + 1].to_string();
                l[i] = format!("{}{}", ni, vi);
                if !l[i].ends_with('\n') {
                    l[i].push('\n');
                }
                l.concat()
            }
        }
        4 => {
            let chars: Vec<char> = base.text.chars().collect();
            let blanks: Vec<usize> = (1..chars.len().saturating_sub(1)).filter(|&i| chars[i] == ' ' && chars[i - 1] != '\n' && chars[i - 1] != ':' && chars[i + 1] != '\n').collect();
            if blanks.is_empty() {
                base.text.clone()
            } else {
                let b = blanks[t.below(blanks.len())];
                let mut c = chars.clone();
                c.insert(b, '\n');
                c.into_iter().collect()
            }
        }
        5 if !lines.is_empty() => {
            let i = t.below(lines.len());
            let mut l = lines.clone();
            let mut dup = l[i].clone();
            if !dup.ends_with('\n') {
                dup.push('\n');
                l[i].push('\n');
            }
            let at = t.range(0, l.len());
            l.insert(at, dup);
            l.concat()
        }
        9 => {
            // a later token of some value starts with '#': harmless on the line it stands on, but a comment if a printer
            // moves it to the start of a continuation line
            let chars: Vec<char> = base.text.chars().collect();
            let blanks: Vec<usize> = (1..chars.len().saturating_sub(1)).filter(|&i| chars[i] == ' ' && chars[i - 1] != '\n' && chars[i - 1] != ':' && chars[i - 1] != ' ' && chars[i + 1] != '\n' && chars[i + 1] != ' ').collect();
            if blanks.is_empty() {
                base.text.clone()
            } else {
                let b = blanks[t.below(blanks.len())];
                let mut c = chars.clone();
                c.insert(b + 1, '#');
                c.into_iter().collect()
            }
        }
        10 => {
            // a keyword-typed field (yes/no, true/false, priority, multi-arch) receives a word from a neighbouring vocabulary
            let kf = keyword_fields(kind);
            let fl: Vec<usize> = (0..lines.len()).filter(|&i| kf.iter().any(|n| lines[i].starts_with(&format!("{}:", n)))).collect();
            if fl.is_empty() {
                base.text.clone()
            } else {
                let i = fl[t.below(fl.len())];
                let w = *t.pick(&["binary-targets", "Yes", "YES", "True", "1", "0", "on", "y", "n", "force", "maybe", "dpkg/target-subcommand", "Optional", "standard ", "source", "any", "Same", "none", "no-such-word"]);
                let mut l = lines.clone();
                l[i] = format!("{} {}\n", &l[i][..l[i].find(':').unwrap() + 1], w);
                l.concat()
            }
        }
        6 => base.text.replace('\n', "\r\n"),
        7 => {
            let chars: Vec<char> = base.text.chars().collect();
            chars[..t.below(chars.len() + 1)].iter().collect()
        }
        _ => {
            let fl: Vec<usize> = (0..lines.len()).filter(|&i| !lines[i].starts_with([' ', '\t', '#', '\n']) && lines[i].contains(':')).collect();
            if fl.is_empty() {
                base.text.clone()
            } else {
                let i = fl[t.below(fl.len())];
                let mut l = lines.clone();
                l[i] = format!("{} {}\n", &l[i][..l[i].find(':').unwrap() + 1], crate::props::c02::multibyte_run(t));
                l.concat()
            }
        }
    };
    Case { kind, text, expected: None, invalid: None, nparas: base.nparas, multiline: base.multiline, any_text: Some(PERTURBATIONS[how]) }
}

impl PropImpl for C20 {
    type Case = Case;
    fn id(&self) -> &'static str {
        "C20"
    }
    fn rule(&self) -> String {
        "cases are documents of 9 kinds (control file, copyright file, apt Release / Sources / Packages stanza, removal record, buildinfo, DEP-3 header incl. the From/Subject forms, APT sources list) generated from \
         field tables (mandatory fields, optional fields toggled, fields in table or shuffled order, multi-line values, comments, varied spacing, several paragraphs in any order) whose values come from the declared \
         type of each field; plus structurally invalid variants (no / two Source paragraphs, a paragraph of neither kind, a missing mandatory field, a copyright text not starting with Format:). Plus, in one case of four, a perturbed document (random edits, a whitespace-only continuation line, an indented '#' line, a field receiving another field's value, a folded value, a duplicated field, CR LF line ends, a cut, a multi-byte run as value): \
         if the typed reader accepts it, only the print/reparse clause is checked. Oracle: typed value \
         image (to_paragraph) = expected reading of the raw fields in declaration order; print -> reparse gives equal images and an identical second print; invalid variants give Err. Non-trivial: >= 2 paragraphs, \
         or a multi-line value, or both present and absent optional fields. Distinct by (kind, text) hash.".into()
    }
    fn assumptions(&self) -> Vec<String> {
        vec![
            "bool fields declared without a codec are written true/false (what the type's FromStr accepts and the repository's own test pins), not yes/no".into(),
            "relation fields contain no substitution variables (the lossy relations reader does not claim them)".into(),
        ]
    }
    fn expected_labels(&self) -> Vec<&'static str> {
        vec!["kind:control", "kind:copyright", "kind:apt-release", "kind:apt-source", "kind:apt-package", "kind:removal", "kind:buildinfo", "kind:dep3", "kind:apt-sources", "invalid:no-source-paragraph", "invalid:two-source-paragraphs", "invalid:paragraph-of-neither-kind", "invalid:not-starting-with-format", "invalid:missing-mandatory-field", "well-formed", "has-comment", "has-multi-line-value", "dep3-mail-header-form", "any-text:accepted", "any-text:rejected", "any-text:random-edits", "any-text:whitespace-only-continuation-line", "any-text:indented-hash-line", "any-text:value-of-another-field", "any-text:folded-value", "any-text:duplicated-field", "any-text:crlf", "any-text:cut", "any-text:multibyte-value", "any-text:hash-token-inside-a-value", "any-text:near-miss-word-in-a-keyword-field"]
    }
    fn budget(&self, tier: Tier) -> Budget {
        Budget { cases_per_lane: if tier == Tier::Quick { 22500 } else { 90000 }, tape_max: 600, cpu_s: 10 }
    }
    fn spaces(&self, _tier: Tier) -> Vec<Space> {
        vec![]
    }
    fn decode(&self, ctx: &mut Ctx, t: &mut Tape) -> Case {
        let kind = KINDS[t.below(KINDS.len())];
        if t.chance(1, 4) {
            let avoid = ctx.avoid(KF_HASH_LINE);
            let mut excluded = 0;
            let c = perturb(t, kind, avoid, &mut excluded);
            ctx.excluded_known += excluded;
            return c;
        }
        let invalid = t.chance(1, 5) && kind != Kind::Dep3;
        gen_case(t, kind, invalid)
    }
    fn finding_of(&self, case: &Case, f: &crate::Failure) -> Option<&'static str> {
        if case.any_text.is_none() || !["reparse-equal", "reparse-accepts", "second-print-identical"].contains(&f.assertion.as_str()) {
            return None;
        }
        // trigger: the typed value read from the text prints a continuation line that starts with '#'
        match parse_kind(case.kind, &case.text) {
            Ok(v) if v.print.split('\n').any(|l| (l.starts_with(' ') || l.starts_with('\t')) && l.trim_start_matches([' ', '\t']).starts_with('#')) => Some(KF_HASH_LINE),
            _ => None,
        }
    }
    fn classify(&self, ctx: &mut Ctx, case: &Case) {
        ctx.set_hash(&(format!("{:?}", case.kind), &case.text));
        ctx.label(match case.kind {
            Kind::Control => "kind:control",
            Kind::Copyright => "kind:copyright",
            Kind::Release => "kind:apt-release",
            Kind::AptSource => "kind:apt-source",
            Kind::AptPackage => "kind:apt-package",
            Kind::Removal => "kind:removal",
            Kind::Buildinfo => "kind:buildinfo",
            Kind::Dep3 => "kind:dep3",
            Kind::AptSources => "kind:apt-sources",
        });
        if let Some(how) = case.any_text {
            ctx.label(how);
        } else if let Some(w) = case.invalid {
            ctx.label(match w {
                "no-source-paragraph" => "invalid:no-source-paragraph",
                "two-source-paragraphs" => "invalid:two-source-paragraphs",
                "paragraph-of-neither-kind" => "invalid:paragraph-of-neither-kind",
                "not-starting-with-format" => "invalid:not-starting-with-format",
                _ => "invalid:missing-mandatory-field",
            });
        } else {
            ctx.label("well-formed");
        }
        ctx.label_if(case.text.contains("\n#") || case.text.starts_with('#'), "has-comment");
        ctx.label_if(case.multiline, "has-multi-line-value");
        ctx.label_if(case.text.contains("From:") || case.text.contains("Subject:"), "dep3-mail-header-form");
        ctx.nontrivial = case.nparas >= 2 || case.multiline || case.expected.as_ref().map(|e| e.iter().any(|p| p.len() >= 3)).unwrap_or(false);
    }
    fn check(&self, ctx: &mut Ctx, case: &Case) -> CheckResult {
        check_ctx(Some(ctx), case)
    }
    fn render(&self, case: &Case) -> String {
        format!("{:?} {} document {:?}", case.kind, case.any_text.or(case.invalid).unwrap_or("well-formed"), case.text)
    }
}
