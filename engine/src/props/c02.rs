//! C02 Every text-parsing entry point is total: no panic, no hang, on any input.
use crate::gen::{doc, rel, text};
use crate::props::{c01, c09, c20};
use crate::tape::Tape;
use crate::{Budget, CheckResult, Ctx, PropImpl, Space, Tier};
use std::str::FromStr;

pub struct C02;

pub struct Case {
    pub ep: usize,
    pub text: String,
    pub family: &'static str,
}

pub struct Ep {
    pub name: &'static str,
    pub ok: &'static str,
    pub err: &'static str,
    /// preferred text family: 0 deb822, 1 relation, 2 pgp, 3 small token, 4 any
    pub pref: u8,
    pub run: fn(&str) -> bool,
}

/// What a valid input of an entry point looks like (so that generated texts get past the first checks and into the
/// nested parsers): a document kind, or a few valid examples to be used verbatim, mutated or concatenated.
pub enum Hint {
    Kind(c20::Kind),
    Examples(&'static [&'static str]),
    None,
}

pub fn hint_of(name: &str) -> Hint {
    use c20::Kind::*;
    match name {
        "lossy::Control::from_str" | "lossless::Control::from_str" | "lossless::Control::read_relaxed" => Hint::Kind(Control),
        "lossy::apt::Source::from_str" | "lossless::apt::Source::from_str" => Hint::Kind(AptSource),
        "lossy::apt::Package::from_str" | "lossless::apt::Package::from_str" => Hint::Kind(AptPackage),
        "lossy::apt::Release::from_paragraph" | "lossless::apt::Release::from_str" => Hint::Kind(Release),
        "lossy::Buildinfo::from_str" | "lossless::Buildinfo::from_str" => Hint::Kind(Buildinfo),
        "lossy::Removal::from_str" => Hint::Kind(Removal),
        "copyright::lossless::Copyright::from_str" | "copyright::lossless::Copyright::from_str_relaxed" | "copyright::lossy::Copyright::from_str" => Hint::Kind(Copyright),
        "dep3::lossless::PatchHeader::from_str" | "dep3::lossy::PatchHeader::from_str" => Hint::Kind(Dep3),
        "apt_sources::Repositories::from_str" => Hint::Kind(AptSources),
        "fields::Priority::from_str" => Hint::Examples(&["required", "important", "standard", "optional", "extra"]),
        "fields::MultiArch::from_str" => Hint::Examples(&["same", "foreign", "no", "allowed"]),
        "fields::Urgency::from_str" => Hint::Examples(&["low", "medium", "HIGH", "emergency", "critical"]),
        "fields::Md5Checksum::from_str" | "fields::Sha1Checksum::from_str" | "fields::Sha256Checksum::from_str" | "fields::Sha512Checksum::from_str" => Hint::Examples(&["b7a7d67a02974c52c408fdb5e118406d 890 cvsd_1.0.24.dsc", "x 0 y", "a\t18446744073709551615  z"]),
        "fields::PackageListEntry::from_str" => Hint::Examples(&["cvsd deb vcs optional", "a udeb debian-installer extra arch=any profile=!stage1", "x deb y required k=v=w"]),
        "changes::File::from_str" => Hint::Examples(&["b7a7d67a02974c52c408fdb5e118406d 890 vcs optional cvsd_1.0.24.dsc", "m 1 s extra f"]),
        "relations::VersionConstraint::from_str" => Hint::Examples(&[">=", "<=", "=", ">>", "<<"]),
        "dep3::OriginCategory::from_str" => Hint::Examples(&["backport", "vendor", "upstream", "other"]),
        "apt_sources::RepositoryType::from_str" => Hint::Examples(&["deb", "deb-src"]),
        "apt_sources::YesNoForce::from_str" => Hint::Examples(&["yes", "no", "force"]),
        "vcs::Vcs::from_field(name=text)" => Hint::Examples(&["Git", "Bzr", "Hg", "Svn", "Cvs"]),
        "parse_identity" => Hint::Examples(&["Joe Example <joe@example.com>", "joe@example.com", "A <b>", "<>"]),
        "lossy::Relation::from_str" | "lossless::Relation::from_str" | "lossless::Entry::from_str" => Hint::Examples(&["a", "libc6 (>= 2.14)", "a:any (<< 1:2~) [!amd64 !i386] <!nocheck cross> <x>", "a | b", "  python3-dulwich   (>= 11) [  amd64 ] <  lala>"]),
        _ => Hint::None,
    }
}

macro_rules! ep {
    ($name:literal, $pref:expr, $f:expr) => {
        Ep { name: $name, ok: concat!("ok:", $name), err: concat!("err:", $name), pref: $pref, run: $f }
    };
}

fn lossy_para(s: &str) -> Option<deb822_lossless::lossy::Paragraph> {
    deb822_lossless::lossy::Paragraph::from_str(s).ok()
}

pub const EPS: &[Ep] = &[
    ep!("deb822::Deb822::from_str", 0, |s| deb822_lossless::Deb822::from_str(s).is_ok()),
    ep!("deb822::Paragraph::from_str", 0, |s| deb822_lossless::Paragraph::from_str(s).is_ok()),
    ep!("deb822::Deb822::from_str_relaxed", 0, |s| deb822_lossless::Deb822::from_str_relaxed(s).1.is_empty()),
    ep!("deb822::Deb822::read", 0, |s| deb822_lossless::Deb822::read(s.as_bytes()).is_ok()),
    ep!("deb822::Deb822::read_relaxed", 0, |s| deb822_lossless::Deb822::read_relaxed(s.as_bytes()).map(|x| x.1.is_empty()).unwrap_or(false)),
    ep!("deb822::lossy::Deb822::from_str", 0, |s| deb822_lossless::lossy::Deb822::from_str(s).is_ok()),
    ep!("deb822::lossy::Paragraph::from_str", 0, |s| deb822_lossless::lossy::Paragraph::from_str(s).is_ok()),
    ep!("deb822::lossy::Deb822::from_reader", 0, |s| deb822_lossless::lossy::Deb822::from_reader(s.as_bytes()).is_ok()),
    ep!("lossless::Relations::from_str", 1, |s| debian_control::lossless::relations::Relations::from_str(s).is_ok()),
    ep!("lossless::Relations::parse_relaxed(false)", 1, |s| debian_control::lossless::relations::Relations::parse_relaxed(s, false).1.is_empty()),
    ep!("lossless::Relations::parse_relaxed(true)", 1, |s| debian_control::lossless::relations::Relations::parse_relaxed(s, true).1.is_empty()),
    ep!("lossless::Entry::from_str", 1, |s| debian_control::lossless::relations::Entry::from_str(s).is_ok()),
    ep!("lossless::Relation::from_str", 1, |s| debian_control::lossless::relations::Relation::from_str(s).is_ok()),
    ep!("lossy::Relations::from_str", 1, |s| debian_control::lossy::Relations::from_str(s).is_ok()),
    ep!("lossy::Relation::from_str", 1, |s| debian_control::lossy::Relation::from_str(s).is_ok()),
    ep!("lossy::Control::from_str", 0, |s| debian_control::lossy::Control::from_str(s).is_ok()),
    ep!("lossy::apt::Source::from_str", 0, |s| debian_control::lossy::apt::Source::from_str(s).is_ok()),
    ep!("lossy::apt::Package::from_str", 0, |s| debian_control::lossy::apt::Package::from_str(s).is_ok()),
    ep!("lossy::apt::Release::from_paragraph", 0, |s| lossy_para(s).map(|p| <debian_control::lossy::apt::Release as deb822_lossless::FromDeb822Paragraph<_>>::from_paragraph(&p).is_ok()).unwrap_or(false)),
    ep!("lossy::Buildinfo::from_str", 0, |s| debian_control::lossy::buildinfo::Buildinfo::from_str(s).is_ok()),
    ep!("lossy::Removal::from_str", 0, |s| debian_control::lossy::ftpmaster::Removal::from_str(s).is_ok()),
    ep!("lossless::Control::from_str", 0, |s| debian_control::lossless::Control::from_str(s).is_ok()),
    ep!("lossless::Control::read_relaxed", 0, |s| debian_control::lossless::Control::read_relaxed(s.as_bytes()).map(|x| x.1.is_empty()).unwrap_or(false)),
    ep!("lossless::apt::Source::from_str", 0, |s| debian_control::lossless::apt::Source::from_str(s).is_ok()),
    ep!("lossless::apt::Package::from_str", 0, |s| debian_control::lossless::apt::Package::from_str(s).is_ok()),
    ep!("lossless::apt::Release::from_str", 0, |s| debian_control::lossless::apt::Release::from_str(s).is_ok()),
    ep!("lossless::Buildinfo::from_str", 0, |s| debian_control::lossless::buildinfo::Buildinfo::from_str(s).is_ok()),
    ep!("lossless::Changes::read", 0, |s| debian_control::lossless::changes::Changes::read(s.as_bytes()).is_ok()),
    ep!("lossless::Changes::read_relaxed", 0, |s| debian_control::lossless::changes::Changes::read_relaxed(s.as_bytes()).map(|x| x.1.is_empty()).unwrap_or(false)),
    ep!("pgp::strip_pgp_signature", 2, |s| debian_control::pgp::strip_pgp_signature(s).is_ok()),
    ep!("vcs::ParsedVcs::from_str", 3, |s| debian_control::vcs::ParsedVcs::from_str(s).is_ok()),
    ep!("vcs::Vcs::from_field(Git)", 3, |s| debian_control::vcs::Vcs::from_field("Git", s).is_ok()),
    ep!("vcs::Vcs::from_field(Bzr)", 3, |s| debian_control::vcs::Vcs::from_field("Bzr", s).is_ok()),
    ep!("vcs::Vcs::from_field(Hg)", 3, |s| debian_control::vcs::Vcs::from_field("Hg", s).is_ok()),
    ep!("vcs::Vcs::from_field(Svn)", 3, |s| debian_control::vcs::Vcs::from_field("Svn", s).is_ok()),
    ep!("vcs::Vcs::from_field(Cvs)", 3, |s| debian_control::vcs::Vcs::from_field("Cvs", s).is_ok()),
    ep!("vcs::Vcs::from_field(name=text)", 3, |s| debian_control::vcs::Vcs::from_field(s, "https://x/y").is_ok()),
    ep!("parse_identity", 3, |s| debian_control::parse_identity(s).is_ok()),
    ep!("fields::Priority::from_str", 3, |s| debian_control::fields::Priority::from_str(s).is_ok()),
    ep!("fields::MultiArch::from_str", 3, |s| debian_control::fields::MultiArch::from_str(s).is_ok()),
    ep!("fields::Urgency::from_str", 3, |s| debian_control::fields::Urgency::from_str(s).is_ok()),
    ep!("fields::Md5Checksum::from_str", 3, |s| debian_control::fields::Md5Checksum::from_str(s).is_ok()),
    ep!("fields::Sha1Checksum::from_str", 3, |s| debian_control::fields::Sha1Checksum::from_str(s).is_ok()),
    ep!("fields::Sha256Checksum::from_str", 3, |s| debian_control::fields::Sha256Checksum::from_str(s).is_ok()),
    ep!("fields::Sha512Checksum::from_str", 3, |s| debian_control::fields::Sha512Checksum::from_str(s).is_ok()),
    ep!("fields::PackageListEntry::from_str", 3, |s| debian_control::fields::PackageListEntry::from_str(s).is_ok()),
    ep!("changes::File::from_str", 3, |s| debian_control::changes::File::from_str(s).is_ok()),
    ep!("relations::VersionConstraint::from_str", 3, |s| debian_control::relations::VersionConstraint::from_str(s).is_ok()),
    ep!("relations::BuildProfile::from_str", 3, |s| debian_control::relations::BuildProfile::from_str(s).is_ok()),
    ep!("copyright::lossless::Copyright::from_str", 0, |s| debian_copyright::lossless::Copyright::from_str(s).is_ok()),
    ep!("copyright::lossless::Copyright::from_str_relaxed", 0, |s| debian_copyright::lossless::Copyright::from_str_relaxed(s).map(|x| x.1.is_empty()).unwrap_or(false)),
    ep!("copyright::lossy::Copyright::from_str", 0, |s| debian_copyright::lossy::Copyright::from_str(s).is_ok()),
    ep!("copyright::License::from_str", 3, |s| debian_copyright::License::from_str(s).is_ok()),
    ep!("dep3::lossless::PatchHeader::from_str", 0, |s| dep3::lossless::PatchHeader::from_str(s).is_ok()),
    ep!("dep3::lossy::PatchHeader::from_str", 0, |s| dep3::lossy::PatchHeader::from_str(s).is_ok()),
    ep!("dep3::Forwarded::from_str", 3, |s| dep3::Forwarded::from_str(s).is_ok()),
    ep!("dep3::Origin::from_str", 3, |s| dep3::Origin::from_str(s).is_ok()),
    ep!("dep3::OriginCategory::from_str", 3, |s| dep3::OriginCategory::from_str(s).is_ok()),
    ep!("dep3::AppliedUpstream::from_str", 3, |s| dep3::AppliedUpstream::from_str(s).is_ok()),
    ep!("apt_sources::Repositories::from_str", 0, |s| apt_sources::Repositories::from_str(s).is_ok()),
    ep!("apt_sources::RepositoryType::from_str", 3, |s| apt_sources::RepositoryType::from_str(s).is_ok()),
    ep!("apt_sources::YesNoForce::from_str", 3, |s| apt_sources::YesNoForce::from_str(s).is_ok()),
    ep!("apt_sources::Signature::from_str", 3, |s| apt_sources::signature::Signature::from_str(s).is_ok()),
];

const SCALE_UNITS: &[&str] = &[
    "a\n", " \n", ":", "a | ", "a (", "<x> ", "# c\n", "-", "é", ", ", "a: b\n c\n", "\n", "${", "a [", "a <", "(>= 1) ", "-----BEGIN PGP SIGNED MESSAGE-----\n", "a:\n", " a\n", "\r", "a, ", "[x] ", " -b ", "<", "a=b ",
    "Files: *\n\n", "Package: a\n\n", "a (>= 1:1) | ", "\t", "a b ",
    // closers and separators without an opener: one syntax error each
    ")", "]", ">", "}", "|", ",", "(", "!", "=", "a, )",
];
/// line-shaped units that are no error (or one per line at most), repeated to 1 MiB: hundreds of thousands of consecutive
/// empty / comment / blank lines or fields - what a per-line recursion does not survive
const DEEP_UNITS: &[&str] = &["\n", "# c\n", " \n", "\r\n", "a: b\n", "a: b\n\n", "#\n"];
const DEEP_SIZE: usize = 1 << 20;
/// sizes of the scaling inputs; the largest one makes an error-per-token unit produce more than 65 536 errors / tokens
const SCALE_SIZES: [usize; 4] = [1024, 4096, 16384, 98304];

const SMALL_TOKENS: &[&str] = &[
    "https://salsa.debian.org/x/y.git", " -b ", "debian/main", " [", "sub/path", "]", "Joe Example", " <", "joe@example.com", ">", "@", "optional", "required", "same", "foreign", "low", "HIGH", ">=", "<<", "=", "!",
    "nocheck", "b7a7d67a02974c52c408fdb5e118406d", " 890 ", "cvsd_1.0.24.dsc", "cvsd deb vcs optional", " arch=any", "=", "commit:", "upstream, ", "not-needed", "no", "yes", "force", "deb", "deb-src", "GPL-3+", "\n",
    " text", "/usr/share/keyrings/x.gpg", "-----BEGIN PGP PUBLIC KEY BLOCK-----", "18446744073709551616", "-1", "é", " ", "\t", "\u{a0}", "Git", "Bzr", "Cvs", ":pserver:anonymous@x:/cvs mod",
];

const PGP_LINES: &[&str] = &[
    "-----BEGIN PGP SIGNED MESSAGE-----", "Hash: SHA512", "", "Origin: Debian", "-----BEGIN PGP SIGNATURE-----", "iQIzBAEBCAAdFiEE", "=olY7", "-----END PGP SIGNATURE-----", "- dash-escaped", " -----BEGIN PGP SIGNATURE-----", "x",
];

/// A value that no typed field parser accepts and in which most byte offsets fall inside a multi-byte character:
/// 0-3 ASCII characters (so that both parities / all residues occur), then a run of one 2-, 3- or 4-byte character,
/// or digits joined by U+2011 (a date typed with non-breaking hyphens). Code that cuts, pads or quotes a value at a
/// fixed byte offset meets a non-boundary here.
pub fn multibyte_run(t: &mut Tape) -> String {
    let mut s = String::new();
    for _ in 0..t.below(4) {
        s.push(*t.pick(&['a', '1', '/', ':', '-', '.']));
    }
    if t.chance(1, 4) {
        let groups = t.range(2, 6);
        for g in 0..groups {
            if g > 0 {
                s.push('\u{2011}');
            }
            for _ in 0..t.range(1, 4) {
                s.push(*t.pick(&['0', '1', '2', '9']));
            }
        }
    } else {
        let c = *t.pick(&['é', '€', '\u{2011}', '😀', 'ß']);
        for _ in 0..t.range(2, 40) {
            s.push(c);
        }
    }
    if t.chance(1, 3) {
        s.push_str(*t.pick(&["/", ".org/debian", " x", "-1"]));
    }
    s
}

/// Replace the value of one field (or of every field) of a deb822-shaped text by multi-byte runs.
fn with_multibyte_values(t: &mut Tape, base: &str) -> String {
    let mut lines: Vec<String> = base.split_inclusive('\n').map(|s| s.to_string()).collect();
    let field_lines: Vec<usize> = (0..lines.len()).filter(|&i| !lines[i].starts_with([' ', '\t', '#']) && lines[i].contains(':')).collect();
    if field_lines.is_empty() {
        return multibyte_run(t);
    }
    let all = t.chance(1, 3);
    let one = field_lines[t.below(field_lines.len())];
    for i in field_lines {
        if all || i == one {
            let c = lines[i].find(':').unwrap();
            lines[i] = format!("{}: {}\n", &lines[i][..c], multibyte_run(t));
        }
    }
    lines.concat()
}

fn family_text(t: &mut Tape, fam: usize) -> (String, &'static str) {
    match fam {
        0 => {
            // deb822-shaped: a typed document of some kind (valid or structurally invalid), or a generic document; valid, mutated or cut
            let base = if t.chance(2, 3) {
                let kind = c20::KINDS[t.below(c20::KINDS.len())];
                let invalid = t.chance(1, 4);
                c20::gen_case(t, kind, invalid).text
            } else {
                doc::gen_doc(t, &doc::DocOpts::default()).render().text
            };
            match t.below(5) {
                0 => (base, "deb822:valid"),
                4 => (with_multibyte_values(t, &base), "deb822:multibyte-value"),
                1 => (text::mutate(t, &base, c01::WEIGHTED, 6), "deb822:mutated"),
                2 => {
                    // corrupt one value: make typed field parsers see garbage
                    let garbage = *t.pick(&["", "x y z", "(", "1:", "${", "a [", "\u{1}", "18446744073709551616", "not a url", "é", "-", ":", "=", "a (>> ", "<"]);
                    let mut lines: Vec<String> = base.split_inclusive('\n').map(|s| s.to_string()).collect();
                    if !lines.is_empty() {
                        let i = t.below(lines.len());
                        if let Some(c) = lines[i].find(':') {
                            lines[i] = format!("{}: {}\n", &lines[i][..c], garbage);
                        }
                    }
                    (lines.concat(), "deb822:garbage-value")
                }
                _ => {
                    let chars: Vec<char> = base.chars().collect();
                    let cut = t.below(chars.len() + 1);
                    (chars[..cut].iter().collect(), "deb822:prefix")
                }
            }
        }
        1 => {
            let o = rel::RelOpts { max_layout: rel::Layout::L3, ..Default::default() };
            let (_, base, _) = rel::gen_field(t, &o);
            match t.below(4) {
                0 => (base, "relation:valid"),
                1 => {
                    let chars: Vec<char> = base.chars().collect();
                    let cut = t.below(chars.len() + 1);
                    (chars[..cut].iter().collect(), "relation:prefix")
                }
                2 => (text::mutate(t, &base, c09::WEIGHTED, 6), "relation:mutated"),
                _ => (text::weighted_text(t, c09::WEIGHTED, 200), "relation:token-soup"),
            }
        }
        2 => {
            let mut s = String::new();
            while t.more(0, 0, 1, 5, 6) {
                s.push_str(*t.pick(PGP_LINES));
                s.push_str(*t.pick(&["\n", "\n", "\n", "\r\n", ""]));
            }
            (s, "pgp-shaped")
        }
        3 => {
            let mut s = String::new();
            while t.more(0, 0, 1, 3, 4) {
                s.push_str(*t.pick(SMALL_TOKENS));
            }
            (s, "small-token")
        }
        4 => (text::weighted_text(t, c01::WEIGHTED, 300), "raw-unicode"),
        _ => {
            let unit = *t.pick(SCALE_UNITS);
            let size = *t.pick(&SCALE_SIZES);
            let n = size / unit.len().max(1);
            let mut s = unit.repeat(n);
            if t.chance(1, 3) {
                s.push_str(*t.pick(&["x", "\n", ")", "]", ">", "}"]));
            }
            (s, "scaling")
        }
    }
}

impl PropImpl for C02 {
    type Case = Case;
    fn id(&self) -> &'static str {
        "C02"
    }
    fn rule(&self) -> String {
        format!(
            "a case is (entry point, text) over {} text-to-value entry points of the five crates; texts come from six families chosen per entry point (deb822-shaped: typed documents of 9 kinds / generic documents, valid, mutated, \
             with one value replaced by garbage, or cut at any character; relation-shaped: generated fields in any layout, every prefix, mutations, token soup; PGP-shaped line mixes incl. CRLF; small-token mixes for VCS / identity / \
             checksum / keyword readers; raw Unicode incl. controls; scaling: a pathological unit repeated to 1/4/16/96 KiB). (E) every string of length <= 3 over the 14 deb822 class representatives and over the 19 relation symbols \
             is given to EVERY entry point. Oracle: the call returns (Ok or Err) without panic, within 20 CPU-seconds and 2 GiB (worker watchdog). Non-trivial: a text with >= 2 lexical items that is not a verbatim corpus seed; \
             distinct by (entry point, text) hash. The label histogram lists per entry point how many inputs returned Ok and Err.",
            EPS.len()
        )
    }
    fn assumptions(&self) -> Vec<String> {
        vec!["'time proportional to a small polynomial' is decided by a CPU budget of 20 s on inputs up to 16 KiB (existing quadratic paths need < 0.5 s there): refutable, not provable".into()]
    }
    fn expected_labels(&self) -> Vec<&'static str> {
        // every entry point must have returned at least once; the fallible ones must have produced both outcomes
        let infallible = ["apt_sources::Signature::from_str", "copyright::License::from_str", "dep3::AppliedUpstream::from_str", "dep3::Forwarded::from_str", "dep3::Origin::from_str", "relations::BuildProfile::from_str", "vcs::ParsedVcs::from_str", "vcs::Vcs::from_field(Cvs)", "vcs::Vcs::from_field(Git)", "vcs::Vcs::from_field(Hg)", "vcs::Vcs::from_field(Svn)"];
        let mut v = vec!["family:deb822:valid", "family:deb822:mutated", "family:deb822:garbage-value", "family:deb822:prefix", "family:deb822:multibyte-value", "family:multibyte-run", "family:relation:valid",
            "family:relation:prefix", "family:relation:mutated", "family:relation:token-soup", "family:pgp-shaped", "family:small-token", "family:raw-unicode", "family:scaling"];
        for e in EPS {
            v.push(e.ok);
            if !infallible.contains(&e.name) {
                v.push(e.err);
            }
        }
        v
    }
    fn budget(&self, tier: Tier) -> Budget {
        Budget { cases_per_lane: if tier == Tier::Quick { 48000 } else { 400000 }, tape_max: 700, cpu_s: 20 }
    }
    fn spaces(&self, tier: Tier) -> Vec<Space> {
        let l = if tier == Tier::Quick { 3 } else { 4 };
        vec![
            Space { name: format!("every entry point x all strings of length <= {} over 14 deb822 class representatives", l), size: EPS.len() as u64 * text::space_size(14, l), exhaustive: true },
            Space { name: format!("every entry point x all strings of length <= {} over 19 relation symbols", l), size: EPS.len() as u64 * text::space_size(19, l), exhaustive: true },
            Space { name: "every entry point x every scaling unit x {1,4,16,96} KiB".into(), size: (EPS.len() * SCALE_UNITS.len() * SCALE_SIZES.len()) as u64, exhaustive: true },
            Space { name: "every entry point x every line-shaped unit repeated to 1 MiB".into(), size: (EPS.len() * DEEP_UNITS.len()) as u64, exhaustive: true },
        ]
    }
    fn from_enum(&self, _ctx: &mut Ctx, tier: Tier, space: usize, index: u64) -> Case {
        let l = if tier == Tier::Quick { 3 } else { 4 };
        let ep = (index % EPS.len() as u64) as usize;
        let i = index / EPS.len() as u64;
        match space {
            0 => Case { ep, text: text::nth_string(c01::ALPHABET, l, i), family: "enum:deb822-alphabet" },
            1 => Case { ep, text: text::nth_string(c09::ALPHABET, l, i), family: "enum:relation-alphabet" },
            3 => {
                let unit = DEEP_UNITS[i as usize];
                Case { ep, text: unit.repeat(DEEP_SIZE / unit.len()), family: "scaling" }
            }
            _ => {
                let unit = SCALE_UNITS[(i / SCALE_SIZES.len() as u64) as usize];
                let size = SCALE_SIZES[(i % SCALE_SIZES.len() as u64) as usize];
                Case { ep, text: unit.repeat(size / unit.len().max(1)), family: "scaling" }
            }
        }
    }
    fn decode(&self, _ctx: &mut Ctx, t: &mut Tape) -> Case {
        let ep = t.below(EPS.len());
        // half of the budget: inputs shaped for this entry point (valid, then mutated / cut / corrupted)
        if t.chance(1, 2) {
            match hint_of(EPS[ep].name) {
                Hint::Kind(k) => {
                    let invalid = t.chance(1, 5) && k != c20::Kind::Dep3;
                    let base = c20::gen_case(t, k, invalid).text;
                    let (text, family) = match t.below(5) {
                        0 | 1 => (base, "deb822:valid"),
                        4 => (with_multibyte_values(t, &base), "deb822:multibyte-value"),
                        2 => (text::mutate(t, &base, c01::WEIGHTED, 4), "deb822:mutated"),
                        _ => {
                            let garbage = *t.pick(&["", "x y z", "(", "1:", "${", "a [", "\u{1}", "18446744073709551616", "not a url", "é", "-", ":", "=", "a (>> ", "<", "a (= 1) (= 2)", "2024-13-45"]);
                            let mut lines: Vec<String> = base.split_inclusive('\n').map(|s| s.to_string()).collect();
                            if !lines.is_empty() {
                                let i = t.below(lines.len());
                                if let Some(c) = lines[i].find(':') {
                                    lines[i] = format!("{}: {}\n", &lines[i][..c], garbage);
                                }
                            }
                            (lines.concat(), "deb822:garbage-value")
                        }
                    };
                    return Case { ep, text, family };
                }
                Hint::Examples(ex) => {
                    let base = t.pick(ex).to_string();
                    let (text, family) = match t.below(5) {
                        0 => (base, "small-token"),
                        1 => (text::mutate(t, &base, c09::WEIGHTED, 3), "small-token"),
                        2 => (format!("{}{}", base, t.pick(SMALL_TOKENS)), "small-token"),
                        3 => (multibyte_run(t), "multibyte-run"),
                        _ => (format!("{}{}", base, multibyte_run(t)), "multibyte-run"),
                    };
                    return Case { ep, text, family };
                }
                Hint::None => {}
            }
        }
        let fam = if t.chance(3, 5) && EPS[ep].pref < 4 { EPS[ep].pref as usize } else { t.below(6) };
        let (text, family) = family_text(t, fam);
        Case { ep, text, family }
    }
    fn classify(&self, ctx: &mut Ctx, case: &Case) {
        ctx.set_hash(&(case.ep, &case.text));
        ctx.label(match case.family {
            "deb822:valid" => "family:deb822:valid",
            "deb822:mutated" => "family:deb822:mutated",
            "deb822:garbage-value" => "family:deb822:garbage-value",
            "deb822:prefix" => "family:deb822:prefix",
            "deb822:multibyte-value" => "family:deb822:multibyte-value",
            "multibyte-run" => "family:multibyte-run",
            "relation:valid" => "family:relation:valid",
            "relation:prefix" => "family:relation:prefix",
            "relation:mutated" => "family:relation:mutated",
            "relation:token-soup" => "family:relation:token-soup",
            "pgp-shaped" => "family:pgp-shaped",
            "small-token" => "family:small-token",
            "raw-unicode" => "family:raw-unicode",
            "scaling" => "family:scaling",
            "enum:deb822-alphabet" => "family:enum:deb822-alphabet",
            _ => "family:enum:relation-alphabet",
        });
        ctx.nontrivial = case.text.chars().count() >= 2;
    }
    fn check(&self, ctx: &mut Ctx, case: &Case) -> CheckResult {
        let e = &EPS[case.ep];
        // a panic is caught by the engine and reported with its location; hangs / memory by the watchdog
        let ok = (e.run)(&case.text);
        ctx.label(if ok { e.ok } else { e.err });
        Ok(())
    }
    fn render(&self, case: &Case) -> String {
        let shown: String = if case.text.len() > 400 { format!("{:?}... ({} bytes)", case.text.chars().take(200).collect::<String>(), case.text.len()) } else { format!("{:?}", case.text) };
        format!("{}({})  [family {}]", EPS[case.ep].name, shown, case.family)
    }
}
