//! C15 Typed accessors: what a setter writes, its getter reads; nothing else moves.
use crate::gen::rel::{self, Layout, RelOpts};
use crate::gen::scan::scan;
use crate::props::c04;
use crate::props::c15_rows::{self as rows, ROWS};
use crate::tape::Tape;
use crate::{ensure, ensure_eq, fail, Budget, CheckResult, Ctx, Failure, PropImpl, Space, Tier};
use deb822_lossless::Deb822;
use debian_control::lossless::relations::Relations;
use std::str::FromStr;

pub struct C15;

#[derive(Debug, Clone, Copy, PartialEq, Eq)]
pub enum View {
    CtlSource,
    CtlBinary,
    AptSource,
    AptPackage,
    AptRelease,
    Buildinfo,
    Changes,
    CopyHeader,
    CopyFiles,
    Dep3,
}

/// A value handed to a setter / returned by a getter, in a comparable form.
#[derive(Debug, Clone, PartialEq)]
pub enum Val {
    /// strings, keywords, URLs, versions, dates as text; None = clearing value / absent
    Str(Option<String>),
    /// relationship field text; None = clearing
    Rel(Option<String>),
    OBool(Option<bool>),
    OUsize(Option<usize>),
    OList(Option<Vec<String>>),
    Ck(Vec<(String, usize, String)>),
    ODate(Option<String>),
    OEnv(Option<Vec<(String, String)>>),
    OLicense(Option<debian_copyright::License>),
    OOrigin(Option<(Option<dep3::OriginCategory>, dep3::Origin)>),
}

impl Val {
    pub fn str_(&self) -> &str {
        match self {
            Val::Str(Some(s)) | Val::ODate(Some(s)) => s,
            v => panic!("harness: not a string value: {:?}", v),
        }
    }
    pub fn ostr(&self) -> Option<&str> {
        match self {
            Val::Str(s) => s.as_deref(),
            v => panic!("harness: not a string value: {:?}", v),
        }
    }
    pub fn rel(&self) -> Option<Relations> {
        match self {
            Val::Rel(t) => t.as_ref().map(|t| Relations::parse_relaxed(t, true).0),
            v => panic!("harness: not a relation value: {:?}", v),
        }
    }
    pub fn bool_(&self) -> bool {
        match self {
            Val::OBool(Some(b)) => *b,
            v => panic!("harness: not a bool value: {:?}", v),
        }
    }
    pub fn usize_(&self) -> usize {
        match self {
            Val::OUsize(Some(b)) => *b,
            v => panic!("harness: not a usize value: {:?}", v),
        }
    }
    pub fn list(&self) -> Vec<String> {
        match self {
            Val::OList(Some(l)) => l.clone(),
            v => panic!("harness: not a list value: {:?}", v),
        }
    }
    pub fn ck(&self) -> Vec<(String, usize, String)> {
        match self {
            Val::Ck(l) => l.clone(),
            v => panic!("harness: not a checksum list: {:?}", v),
        }
    }
    pub fn date(&self) -> chrono::DateTime<chrono::FixedOffset> {
        chrono::DateTime::parse_from_rfc2822(self.str_()).expect("harness: generated date")
    }
    pub fn env(&self) -> Vec<(String, String)> {
        match self {
            Val::OEnv(Some(l)) => l.clone(),
            v => panic!("harness: not an environment: {:?}", v),
        }
    }
    pub fn license(&self) -> debian_copyright::License {
        match self {
            Val::OLicense(Some(l)) => l.clone(),
            v => panic!("harness: not a licence: {:?}", v),
        }
    }
    pub fn origin(&self) -> (Option<dep3::OriginCategory>, dep3::Origin) {
        match self {
            Val::OOrigin(Some(o)) => o.clone(),
            v => panic!("harness: not an origin: {:?}", v),
        }
    }
    fn is_clearing(&self, kind: &str) -> bool {
        match self {
            Val::Str(None) | Val::Rel(None) => true,
            Val::OBool(Some(false)) => kind == "BOOL_CLEAR",
            _ => false,
        }
    }
}

#[derive(Debug, Clone)]
pub struct Prior {
    /// stale value of the target field: None = absent
    pub stale: Option<Vec<String>>,
    pub comment_before_target: bool,
    pub comment_after_target: bool,
    pub fields_before: usize,
    pub fields_after: usize,
    pub leading_comment: bool,
    pub other_paragraph: bool,
    /// DEP-3 only: the mail-header forms are present (From / Subject)
    pub mail_form: bool,
    /// the document is first passed through Deb822::wrap_and_sort(None, None); the accessors then work on the live object
    /// that call returned (paragraph-handle views only)
    pub wrapped: bool,
    /// a foreign field whose name is the target's name in other letter case (names are compared exactly by the
    /// library): 0 none, 1 lower case before the target, 2 upper case after it
    pub case_variant: u8,
}

#[derive(Debug, Clone)]
pub enum Case {
    /// sibling: another accessor of the same view and value type, called first with vals[0] (two fields then hold the same value)
    Set { row: usize, prior: Prior, vals: Vec<Val>, sibling: Option<usize> },
    Getter { which: usize, a: Vec<String>, b: Vec<String>, flag: u8 },
    /// every relationship-valued getter of the typed views, applied to parsed text holding this field (with substitution variables)
    RelGetters { model: crate::gen::rel::RelField, text: String },
}

fn alt_names(row: &rows::Row) -> Vec<&'static str> {
    match (row.view, row.field) {
        (View::Dep3, "Author") => vec!["Author", "From"],
        (View::Dep3, "Description") => vec!["Description", "Subject"],
        _ => vec![row.field],
    }
}

fn base_fields(view: View) -> &'static str {
    // the fields that make a paragraph of this kind what it is (kept in front, never the target)
    match view {
        View::CtlSource => "Source: foo\n",
        View::CtlBinary => "Package: foo-bin\n",
        View::CopyFiles => "Files: *\nCopyright: 2024 X\nLicense: MIT\n",
        View::CopyHeader => "Format: https://www.debian.org/doc/packaging-manuals/copyright-format/1.0/\n",
        _ => "",
    }
}

/// Build the document text and return (text, index of the target paragraph).
fn build_doc(row: &rows::Row, prior: &Prior) -> (String, usize) {
    let mut para = String::new();
    let base = base_fields(row.view);
    let base_has_target = base.lines().any(|l| l.split(':').next().map(|n| n.eq_ignore_ascii_case(row.field)).unwrap_or(false));
    para.push_str(base);
    for i in 0..prior.fields_before {
        para.push_str(&format!("X-Before-{}:  keep {}\n", i, i));
    }
    if row.view == View::Dep3 && prior.mail_form {
        para.push_str("From: Old Author <old@example.com>\nSubject: old subject\n old long text\n");
    }
    let variant = |upper: bool| if upper { row.field.to_uppercase() } else { row.field.to_lowercase() };
    let variant_usable = |v: &str| v != row.field && !alt_names(row).iter().any(|a| a == &v) && !base.lines().any(|l| l.starts_with(&format!("{}:", v)));
    if prior.case_variant == 1 && variant_usable(&variant(false)) {
        para.push_str(&format!("{}: case variant, keep\n", variant(false)));
    }
    if !base_has_target {
        if let Some(stale) = &prior.stale {
            if prior.comment_before_target {
                para.push_str("# comment before the field\n");
            }
            para.push_str(&format!("{}: {}\n", row.field, stale[0]));
            for l in &stale[1..] {
                para.push_str(&format!("  {}\n", l));
            }
            if prior.comment_after_target {
                para.push_str("# comment after the field\n");
            }
        }
    }
    if prior.case_variant == 2 && variant_usable(&variant(true)) {
        para.push_str(&format!("{}: case variant, keep\n", variant(true)));
    }
    for i in 0..prior.fields_after {
        para.push_str(&format!("X-After-{}: multi\n   line {}\n", i, i));
    }
    if para.is_empty() {
        para.push_str("X-Only: 1\n");
    }
    let mut text = String::new();
    let mut idx = 0;
    match row.view {
        View::CopyFiles => {
            text.push_str("Format: https://www.debian.org/doc/packaging-manuals/copyright-format/1.0/\nUpstream-Name: x\n\n");
            idx = 1;
            text.push_str(&para);
        }
        View::CopyHeader | View::Dep3 | View::Changes => text.push_str(&para),
        _ => {
            if prior.leading_comment {
                text.push_str("# leading comment\n\n");
            }
            text.push_str(&para);
        }
    }
    if prior.other_paragraph && !matches!(row.view, View::Dep3 | View::Changes) {
        text.push_str("\n# comment between paragraphs\nOther: keep\n extra\n# trailing\n");
    }
    (text, idx)
}

fn stale_for(kind: &str) -> Vec<String> {
    match kind {
        "PRIO" | "PRIO_O" => vec!["extra".into()],
        "MA" | "MA_O" => vec!["no".into()],
        "BOOL_OPT" | "BOOL_CLEAR" | "BOOL_YN" => vec!["yes".into()],
        "VER" => vec!["0.1-1".into()],
        "USIZE" => vec!["7".into()],
        "URLREF" => vec!["https://old.example.org/".into()],
        "DATE" => vec!["Sat, 24 Aug 2024 14:13:49 +0000".into()],
        "NAIVEDATE" => vec!["2001-01-01".into()],
        k if k == "UPBUG" || k.starts_with("VBUG:") => vec!["https://bugs.example.org/old/1".into()],
        "CK_MD5" | "CK_SHA1" | "CK_SHA256" | "CK_SHA512" => vec!["".into(), "0123 1 old_file".into()],
        "ENV" => vec!["".into(), "OLD=\"1\"".into()],
        "RELREF" | "OREL" | "RELV" => vec!["old-dep (>= 1),".into(), "other-old".into()],
        "LICENSE" => vec!["Old-License".into()],
        "LONGDESC" => vec!["old first line".into(), "old long text".into(), "more old text".into()],
        _ => vec!["old value".into()],
    }
}

fn rel_structure(text: &str) -> Result<(Vec<Vec<crate::gen::rel::Rel>>, Vec<String>), Failure> {
    let (r, errs) = Relations::parse_relaxed(text, true);
    if !errs.is_empty() {
        return Err(Failure { assertion: "infra/rel".into(), message: format!("{:?}: {:?}", text, errs) });
    }
    Ok((crate::props::c10::lossless_entries(&r)?, r.substvars().collect()))
}

fn same_val(got: &Val, want: &Val, kind: &str) -> Result<bool, Failure> {
    Ok(match (got, want) {
        (Val::Rel(Some(a)), Val::Rel(Some(b))) => {
            let (ea, sa) = rel_structure(a)?;
            let (eb, sb) = rel_structure(b)?;
            crate::props::c10::same_entries(&ea, &eb) && sa == sb
        }
        (Val::Str(Some(a)), Val::Str(Some(b))) if kind == "URLREF" => url::Url::parse(a).ok() == url::Url::parse(b).ok(),
        (Val::OBool(a), Val::OBool(b)) if kind == "BOOL_CLEAR" => a.unwrap_or(false) == b.unwrap_or(false),
        (Val::OEnv(Some(a)), Val::OEnv(Some(b))) => {
            let mut x = a.clone();
            let mut y = b.clone();
            x.sort();
            y.sort();
            x == y
        }
        (Val::ODate(Some(a)), Val::ODate(Some(b))) => chrono::DateTime::parse_from_rfc2822(a).ok() == chrono::DateTime::parse_from_rfc2822(b).ok(),
        (Val::ODate(a), Val::Str(b)) | (Val::Str(a), Val::ODate(b)) => a.as_ref().and_then(|x| chrono::DateTime::parse_from_rfc2822(x).ok()) == b.as_ref().and_then(|x| chrono::DateTime::parse_from_rfc2822(x).ok()),
        (a, b) => a == b,
    })
}

enum Live {
    Doc(Deb822),
    Copyright(debian_copyright::lossless::Copyright),
    Dep3(dep3::lossless::PatchHeader),
    Changes(debian_control::lossless::changes::Changes),
}

impl Live {
    fn text(&self) -> String {
        match self {
            Live::Doc(d) => d.to_string(),
            Live::Copyright(c) => c.to_string(),
            Live::Dep3(p) => p.to_string(),
            Live::Changes(_) => String::new(),
        }
    }
    fn items(&self, idx: usize) -> Vec<(String, String)> {
        match self {
            Live::Doc(d) => d.paragraphs().nth(idx).map(|p| p.items().collect()).unwrap_or_default(),
            Live::Copyright(c) => Deb822::from_str(&c.to_string()).ok().and_then(|d| d.paragraphs().nth(idx).map(|p| p.items().collect())).unwrap_or_default(),
            Live::Dep3(p) => p.as_deb822().items().collect(),
            Live::Changes(_) => vec![],
        }
    }
}

fn apply(live: &mut Live, ri: usize, idx: usize, val: &Val) -> Result<Val, Failure> {
    let row = &ROWS[ri];
    let nf = |what: &str| Failure { assertion: "view-found".into(), message: format!("{} not found", what) };
    Ok(match live {
        Live::Doc(d) => {
            let h = d.paragraphs().nth(idx).ok_or_else(|| nf("target paragraph"))?;
            rows::set_row(ri, h, val);
            let h2 = d.paragraphs().nth(idx).ok_or_else(|| nf("target paragraph (after the setter)"))?;
            rows::get_row(ri, h2)
        }
        Live::Copyright(c) => match row.view {
            View::CopyHeader => {
                let mut h = c.header().ok_or_else(|| nf("header"))?;
                rows::set_copyheader(ri, &mut h, val);
                rows::get_copyheader(ri, &c.header().ok_or_else(|| nf("header"))?)
            }
            _ => {
                let mut f = c.iter_files().next().ok_or_else(|| nf("Files paragraph"))?;
                rows::set_copyfiles(ri, &mut f, val);
                rows::get_copyfiles(ri, &c.iter_files().next().ok_or_else(|| nf("Files paragraph"))?)
            }
        },
        Live::Dep3(p) => {
            rows::set_dep3(ri, p, val);
            rows::get_dep3(ri, p)
        }
        Live::Changes(c) => {
            rows::set_changes(ri, c, val);
            rows::get_changes(ri, c)
        }
    })
}

fn check_set(ri: usize, prior: &Prior, vals: &[Val], sibling: Option<usize>) -> CheckResult {
    let row = &ROWS[ri];
    let (text, idx) = build_doc(row, prior);
    let mut live = match row.view {
        View::CopyHeader | View::CopyFiles => Live::Copyright(debian_copyright::lossless::Copyright::from_str(&text).map_err(|e| Failure { assertion: "infra/start".into(), message: format!("{:?}: {}", text, e) })?),
        View::Dep3 => Live::Dep3(dep3::lossless::PatchHeader::from_str(&text).map_err(|e| Failure { assertion: "infra/start".into(), message: format!("{:?}: {}", text, e) })?),
        View::Changes => Live::Changes(debian_control::lossless::changes::Changes::read(text.as_bytes()).map_err(|e| Failure { assertion: "infra/start".into(), message: format!("{:?}: {}", text, e) })?),
        _ => {
            let d = Deb822::from_str(&text).map_err(|e| Failure { assertion: "infra/start".into(), message: format!("{:?}: {:?}", text, e.to_string()) })?;
            Live::Doc(if prior.wrapped { d.wrap_and_sort(None, None) } else { d })
        }
    };
    let names = alt_names(row);
    let exact = prior.case_variant != 0;
    let is_target = |n: &str| names.iter().any(|x| if exact { *x == n } else { x.eq_ignore_ascii_case(n) });
    if let Some(si) = sibling {
        // another field of the same paragraph receives the very value that the accessor under test is about to store
        let srow = &ROWS[si];
        let got = apply(&mut live, si, idx, &vals[0])?;
        let want = if vals[0].is_clearing(srow.kind) && srow.kind == "BOOL_CLEAR" { Val::OBool(Some(false)) } else { vals[0].clone() };
        ensure!(same_val(&got, &want, srow.kind)?, "getter-returns-set-value", "{:?}::{}({:?}) then {}() = {:?} (sibling call before {}), text {:?}", srow.view, srow.setter, vals[0], srow.getter, got, row.setter, live.text());
    }
    for (step, val) in vals.iter().enumerate() {
        let old = live.text();
        let old_items = live.items(idx);
        let got = apply(&mut live, ri, idx, val)?;
        let new = live.text();
        let clearing = val.is_clearing(row.kind);
        // (1) the getter returns what the setter was given
        let want = if clearing && row.kind == "BOOL_CLEAR" { Val::OBool(Some(false)) } else { val.clone() };
        ensure!(same_val(&got, &want, row.kind)?, "getter-returns-set-value", "{:?}::{}({:?}) then {}() = {:?}\nbefore: {:?}\nafter: {:?}", row.view, row.setter, val, row.getter, got, old, new);
        if matches!(live, Live::Changes(_)) {
            continue;
        }
        // (2) exactly one field with the documented name (none after a clearing setter); every other field unchanged
        let new_items = live.items(idx);
        let count = new_items.iter().filter(|(n, _)| is_target(n)).count();
        let mail_both = row.view == View::Dep3 && names.len() == 2;
        if clearing {
            ensure!(count == 0, "clearing-removes-field", "{:?}::{}({:?}) left the field behind: {:?}", row.view, row.setter, val, new);
        } else if !mail_both {
            ensure!(count == 1, "stored-in-exactly-one-documented-field", "{:?}::{}({:?}): {} fields named {:?} afterwards\nbefore: {:?}\nafter: {:?}", row.view, row.setter, val, count, names, old, new);
        } else {
            ensure!(count >= 1 && count <= old_items.iter().filter(|(n, _)| is_target(n)).count().max(1), "stored-in-exactly-one-documented-field", "{:?}::{}({:?}) added a duplicate of {:?}\nbefore: {:?}\nafter: {:?}", row.view, row.setter, val, names, old, new);
        }
        let others = |items: &[(String, String)]| items.iter().filter(|(n, _)| !is_target(n)).cloned().collect::<Vec<_>>();
        ensure_eq!(others(&new_items), others(&old_items), "other-fields-unchanged", "{:?}::{}({:?}) changed another field\nbefore: {:?}\nafter: {:?}", row.view, row.setter, val, old, new);
        // (3) byte frame: everything outside the touched field is unchanged
        let sc = scan(&old);
        if !sc.errors.is_empty() {
            return fail("infra/scan", format!("{:?}: {:?}", old, sc.errors));
        }
        // which of the documented names was written (DEP-3 has two spellings for author / description)
        let stored_name = new_items
            .iter()
            .filter(|(n, _)| is_target(n))
            .find(|(n, v)| !old_items.iter().any(|(on, ov)| on == n && ov == v))
            .or_else(|| new_items.iter().find(|(n, _)| is_target(n)))
            .map(|x| x.0.clone());
        let old_name = match &stored_name {
            Some(n) if old_items.iter().any(|(on, _)| on == n) => Some(n.clone()),
            _ => old_items.iter().find(|(n, _)| is_target(n)).map(|x| x.0.clone()),
        };
        let mi = if old_items.is_empty() { None } else { Some(idx.min(sc.paras.len().saturating_sub(1))) };
        let op = if clearing {
            c04::Op::Remove(idx, old_name.clone().unwrap_or_else(|| row.field.to_string()))
        } else {
            match (&old_name, &stored_name) {
                (Some(o), Some(n)) if o != n => c04::Op::Rename(idx, o.clone(), n.clone()),
                (_, Some(n)) => c04::Op::Set(idx, n.clone(), c04::ANY_VALUE.to_string()),
                _ => continue,
            }
        };
        if let c04::Op::Rename(..) = op {
            // the value changes as well: only the frame around the field is checked
            let f = sc.paras[mi.unwrap()].fields.iter().find(|f| Some(&f.name) == old_name.as_ref()).unwrap();
            ensure!(new.starts_with(&old[..f.start]) && new.ends_with(&old[f.end..]), "frame", "step {}: text outside the touched field changed\nold: {:?}\nnew: {:?}", step, old, new);
        } else {
            c04::check_frame(&old, &new, &sc, &op, mi, step)?;
        }
        // (4) the printed document re-reads to the same content
        match Deb822::from_str(&new) {
            Err(e) => return fail("reread-accepts", format!("{:?}::{}({:?}) printed {:?}, rejected: {:?}", row.view, row.setter, val, new, e.to_string())),
            Ok(d) => {
                let re: Vec<(String, String)> = d.paragraphs().nth(idx).map(|p| p.items().collect()).unwrap_or_default();
                let trim = |v: &[(String, String)]| v.iter().map(|(n, x)| (n.clone(), x.split('\n').map(|l| l.trim_matches(|c| c == ' ' || c == '\t').to_string()).filter(|l| !l.is_empty()).collect::<Vec<_>>())).collect::<Vec<_>>();
                ensure_eq!(trim(&re), trim(&new_items), "reread-content", "{:?}::{}({:?}): re-reading {:?}", row.view, row.setter, val, new);
            }
        }
    }
    Ok(())
}

// ------------------------------------------------------------------------------------------
// getter-only checks on parsed raw text (the documented reading of the raw field)

/// Relationship-valued getters on parsed text: each must return the written entries and substitution variables.
fn check_rel_getters(model: &crate::gen::rel::RelField, raw: &str) -> CheckResult {
    use debian_control::lossless as ll;
    // continuation lines of the raw field, indented
    let val = raw.split('\n').map(|l| l.trim_matches(|c| c == ' ' || c == '\t')).filter(|l| !l.is_empty()).collect::<Vec<_>>().join("\n ");
    let want_e = model.entries();
    let want_s = model.substvars();
    let verify = |what: &str, got: Option<Relations>| -> CheckResult {
        let r = match got {
            Some(r) => r,
            None => return fail("getter/relations", format!("{} returns None for the field value {:?}", what, val)),
        };
        let e = crate::props::c10::lossless_entries(&r)?;
        ensure!(crate::props::c10::same_entries(&e, &want_e), "getter/relations", "{} on {:?}: entries {:?}, written {:?}", what, val, e, want_e);
        ensure_eq!(r.substvars().collect::<Vec<_>>(), want_s, "getter/relations", "{} on {:?}: substitution variables", what, val);
        Ok(())
    };
    let src_fields = ["Build-Depends", "Build-Depends-Indep", "Build-Depends-Arch", "Build-Conflicts", "Build-Conflicts-Indep", "Build-Conflicts-Arch"];
    let bin_fields = ["Depends", "Recommends", "Suggests", "Enhances", "Pre-Depends", "Breaks", "Conflicts", "Replaces", "Provides", "Built-Using"];
    let mut text = String::from("Source: x\n");
    for f in src_fields {
        text.push_str(&format!("{}: {}\n", f, val));
    }
    text.push_str("\nPackage: y\n");
    for f in bin_fields {
        text.push_str(&format!("{}: {}\n", f, val));
    }
    let c = ll::Control::from_str(&text).map_err(|e| Failure { assertion: "infra/getter".into(), message: format!("{:?}: {:?}", text, e.to_string()) })?;
    let s = c.source().ok_or_else(|| Failure { assertion: "control-source-found".into(), message: "no source".into() })?;
    verify("control Source::build_depends", s.build_depends())?;
    verify("control Source::build_depends_indep", s.build_depends_indep())?;
    verify("control Source::build_depends_arch", s.build_depends_arch())?;
    verify("control Source::build_conflicts", s.build_conflicts())?;
    verify("control Source::build_conflicts_indep", s.build_conflicts_indep())?;
    verify("control Source::build_conflicts_arch", s.build_conflicts_arch())?;
    let b = c.binaries().next().ok_or_else(|| Failure { assertion: "control-binary-found".into(), message: "no binary".into() })?;
    verify("control Binary::depends", b.depends())?;
    verify("control Binary::recommends", b.recommends())?;
    verify("control Binary::suggests", b.suggests())?;
    verify("control Binary::enhances", b.enhances())?;
    verify("control Binary::pre_depends", b.pre_depends())?;
    verify("control Binary::breaks", b.breaks())?;
    verify("control Binary::conflicts", b.conflicts())?;
    verify("control Binary::replaces", b.replaces())?;
    verify("control Binary::provides", b.provides())?;
    verify("control Binary::built_using", b.built_using())?;
    // apt Sources / Packages stanzas and buildinfo
    let mut st = String::from("Package: x\n");
    for f in src_fields {
        st.push_str(&format!("{}: {}\n", f, val));
    }
    let a = ll::apt::Source::from_str(&st).map_err(|e| Failure { assertion: "infra/getter".into(), message: e.to_string() })?;
    verify("apt Source::build_depends", a.build_depends())?;
    verify("apt Source::build_depends_indep", a.build_depends_indep())?;
    verify("apt Source::build_depends_arch", a.build_depends_arch())?;
    verify("apt Source::build_conflicts", a.build_conflicts())?;
    verify("apt Source::build_conflicts_indep", a.build_conflicts_indep())?;
    verify("apt Source::build_conflicts_arch", a.build_conflicts_arch())?;
    let mut pt = String::from("Package: x\n");
    for f in &bin_fields[..9] {
        pt.push_str(&format!("{}: {}\n", f, val));
    }
    let p = ll::apt::Package::from_str(&pt).map_err(|e| Failure { assertion: "infra/getter".into(), message: e.to_string() })?;
    verify("apt Package::depends", p.depends())?;
    verify("apt Package::recommends", p.recommends())?;
    verify("apt Package::suggests", p.suggests())?;
    verify("apt Package::enhances", p.enhances())?;
    verify("apt Package::pre_depends", p.pre_depends())?;
    verify("apt Package::breaks", p.breaks())?;
    verify("apt Package::conflicts", p.conflicts())?;
    verify("apt Package::replaces", p.replaces())?;
    verify("apt Package::provides", p.provides())?;
    let bi = ll::buildinfo::Buildinfo::from_str(&format!("Format: 1.0\nSource: x\nInstalled-Build-Depends: {}\n", val)).map_err(|e| Failure { assertion: "infra/getter".into(), message: e.to_string() })?;
    verify("Buildinfo::installed_build_depends", bi.installed_build_depends())?;
    Ok(())
}

const GETTERS: usize = 9;

fn check_getter(which: usize, a: &[String], b: &[String], flag: u8) -> CheckResult {
    use debian_control::lossless as ll;
    let ws = |i: usize| ["", " ", "  ", "\n ", " \n  "][(flag as usize + i) % 5];
    match which {
        0 => {
            // comma separated lists: Uploaders (control, apt Sources), Changelogs, tags
            let raw = a.iter().enumerate().map(|(i, x)| format!("{}{}", if i == 0 { "" } else { ws(i).trim_start_matches(' ') }, x)).collect::<Vec<_>>().join(",");
            let raw = if flag & 1 == 1 { a.join(",\n ") } else { raw };
            let text = format!("Source: x\nUploaders: {}\n", raw);
            let c = ll::Control::from_str(&text).map_err(|e| Failure { assertion: "infra/getter".into(), message: format!("{:?}: {:?}", text, e.to_string()) })?;
            let s = c.source().ok_or_else(|| Failure { assertion: "control-source-found".into(), message: "no source".into() })?;
            ensure_eq!(s.uploaders(), Some(a.to_vec()), "getter/uploaders", "Uploaders of {:?}", text);
            let text2 = format!("Package: x\nUploaders: {}\nChangelogs: {}\n", raw, raw);
            let src = ll::apt::Source::from_str(&text2).map_err(|e| Failure { assertion: "infra/getter".into(), message: e.to_string() })?;
            ensure_eq!(src.uploaders(), Some(a.to_vec()), "getter/apt-source-uploaders", "Uploaders of {:?}", text2);
            let rel = ll::apt::Release::from_str(&text2).map_err(|e| Failure { assertion: "infra/getter".into(), message: e.to_string() })?;
            ensure_eq!(rel.changelogs(), Some(a.to_vec()), "getter/changelogs", "Changelogs of {:?}", text2);
        }
        1 => {
            // space separated lists
            let raw = b.iter().enumerate().map(|(i, x)| format!("{}{}", if i == 0 { "" } else { [" ", "  ", "\t", " \n ", "\n  "][(flag as usize + i) % 5] }, x)).collect::<String>();
            let text = format!("Origin: Debian\nArchitectures: {}\nComponents: {}\nBinary: {}\nArchitecture: {}\nBuild-Tainted-By: {}\n", raw, raw, raw, raw, raw);
            let r = ll::apt::Release::from_str(&text).map_err(|e| Failure { assertion: "infra/getter".into(), message: format!("{:?}: {}", text, e) })?;
            ensure_eq!(r.architectures(), Some(b.to_vec()), "getter/architectures", "Architectures of {:?}", text);
            ensure_eq!(r.components(), Some(b.to_vec()), "getter/components", "Components of {:?}", text);
            let ch = ll::changes::Changes::read(text.as_bytes()).map_err(|e| Failure { assertion: "infra/getter".into(), message: e.to_string() })?;
            ensure_eq!(ch.binary(), Some(b.to_vec()), "getter/changes-binary", "Binary of {:?}", text);
            ensure_eq!(ch.architecture(), Some(b.to_vec()), "getter/changes-architecture", "Architecture of {:?}", text);
            let bi = ll::buildinfo::Buildinfo::from_str(&text).map_err(|e| Failure { assertion: "infra/getter".into(), message: e.to_string() })?;
            ensure_eq!(bi.binaries(), Some(b.to_vec()), "getter/buildinfo-binaries", "Binary of {:?}", text);
            ensure_eq!(bi.build_tainted_by(), Some(b.to_vec()), "getter/buildinfo-build-tainted-by", "Build-Tainted-By of {:?}", text);
        }
        2 => {
            // checksum triples, one per line
            let triples: Vec<(String, usize, String)> = b.iter().enumerate().map(|(i, x)| (format!("{}{}", x, "0123abcd"), i * 977 + flag as usize, format!("{}_{}.dsc", x, i))).collect();
            // columns are separated by one blank, or aligned with several blanks / a tab as in real Release files
            let sep = |k: usize| [" ", "  ", "       ", "\t"][if flag & 2 == 2 { (flag as usize / 4 + k) % 4 } else { 0 }];
            let body: String = triples.iter().enumerate().map(|(i, (h, s, n))| format!(" {}{}{}{}{}\n", h, sep(i), s, sep(i + 1), n)).collect();
            let text = format!("Package: x\nFiles:\n{}Checksums-Sha1:\n{}Checksums-Sha256:\n{}Checksums-Sha512:\n{}MD5Sum:\n{}SHA256:\n{}", body, body, body, body, body, body);
            let s = ll::apt::Source::from_str(&text).map_err(|e| Failure { assertion: "infra/getter".into(), message: format!("{:?}: {}", text, e) })?;
            ensure_eq!(s.files().into_iter().map(|c| (c.md5sum, c.size, c.filename)).collect::<Vec<_>>(), triples, "getter/files", "Files of {:?}", text);
            ensure_eq!(s.checksums_sha1().into_iter().map(|c| (c.sha1, c.size, c.filename)).collect::<Vec<_>>(), triples, "getter/checksums-sha1", "Checksums-Sha1 of {:?}", text);
            ensure_eq!(s.checksums_sha256().into_iter().map(|c| (c.sha256, c.size, c.filename)).collect::<Vec<_>>(), triples, "getter/checksums-sha256", "Checksums-Sha256 of {:?}", text);
            ensure_eq!(s.checksums_sha512().into_iter().map(|c| (c.sha512, c.size, c.filename)).collect::<Vec<_>>(), triples, "getter/checksums-sha512", "Checksums-Sha512 of {:?}", text);
            let r = ll::apt::Release::from_str(&text).map_err(|e| Failure { assertion: "infra/getter".into(), message: e.to_string() })?;
            ensure_eq!(r.checksums_md5().into_iter().map(|c| (c.md5sum, c.size, c.filename)).collect::<Vec<_>>(), triples, "getter/release-md5", "MD5Sum of {:?}", text);
            ensure_eq!(r.checksums_sha256().into_iter().map(|c| (c.sha256, c.size, c.filename)).collect::<Vec<_>>(), triples, "getter/release-sha256", "SHA256 of {:?}", text);
            let ch = ll::changes::Changes::read(text.as_bytes()).map_err(|e| Failure { assertion: "infra/getter".into(), message: e.to_string() })?;
            ensure_eq!(ch.checksums_sha1().map(|v| v.into_iter().map(|c| (c.sha1, c.size, c.filename)).collect::<Vec<_>>()), Some(triples.clone()), "getter/changes-sha1", "Checksums-Sha1 of {:?}", text);
            let bi = ll::buildinfo::Buildinfo::from_str(&text).map_err(|e| Failure { assertion: "infra/getter".into(), message: e.to_string() })?;
            ensure_eq!(bi.checksums_sha256().into_iter().map(|c| (c.sha256, c.size, c.filename)).collect::<Vec<_>>(), triples, "getter/buildinfo-sha256", "Checksums-Sha256 of {:?}", text);
        }
        3 => {
            // yes/no flags
            let yes = flag & 1 == 1;
            let word = if yes { "yes" } else { "no" };
            let text = format!("Source: x\nRules-Requires-Root: {}\n\nPackage: y\nEssential: {}\n", word, word);
            let c = ll::Control::from_str(&text).map_err(|e| Failure { assertion: "infra/getter".into(), message: e.to_string() })?;
            ensure_eq!(c.source().and_then(|s| s.rules_requires_root()), Some(yes), "getter/rules-requires-root", "{:?}", text);
            ensure_eq!(c.binaries().next().map(|b| b.essential()), Some(yes), "getter/essential", "{:?}", text);
            let c2 = ll::Control::from_str("Source: x\n\nPackage: y\n").unwrap();
            ensure_eq!(c2.source().and_then(|s| s.rules_requires_root()), None, "getter/rules-requires-root-absent", "absent field");
            ensure_eq!(c2.binaries().next().map(|b| b.essential()), Some(false), "getter/essential-absent", "absent field");
            let rt = format!("Origin: x\nAcquire-By-Hash: {}\n", word);
            let r = ll::apt::Release::from_str(&rt).unwrap();
            ensure_eq!(r.acquire_by_hash(), yes, "getter/acquire-by-hash", "{:?}", rt);
            // dates as archives write them (zone spelled "UTC") and as RFC 2822 writes them
            let (dtext, secs) = [("Sat, 24 Aug 2024 14:13:49 UTC", 1724508829i64), ("Thu, 23 Apr 2020 17:19:19 UTC", 1587662359), ("Sat, 02 Jul 2022 09:29:16 +0000", 1656754156), ("Mon, 30 Dec 2024 00:00:00 +0530", 1735497000)][(flag as usize / 2) % 4];
            let rd = ll::apt::Release::from_str(&format!("Origin: x\nDate: {}\nValid-Until: {}\n", dtext, dtext)).unwrap();
            ensure_eq!(rd.date().map(|d| d.timestamp()), Some(secs), "getter/release-date", "Date: {:?}", dtext);
            ensure_eq!(rd.valid_until().map(|d| d.timestamp()), Some(secs), "getter/release-valid-until", "Valid-Until: {:?}", dtext);
            // an absent flag reads as "not set"
            let r0 = ll::apt::Release::from_str("Origin: x\n").unwrap();
            ensure_eq!(r0.acquire_by_hash(), false, "getter/acquire-by-hash-absent", "absent field");
            ensure_eq!(r0.no_support_for_architecture_all(), false, "getter/no-support-for-architecture-all-absent", "absent field");
        }
        4 => {
            // DEP-3: first description line, long description, author fallback, bugs
            let first = &a[0];
            let rest: Vec<String> = a[1..].to_vec();
            let (df, af) = if flag & 1 == 1 { ("Subject", "From") } else { ("Description", "Author") };
            let mut text = format!("{}: {}\n", df, first);
            for l in &rest {
                text.push_str(&format!(" {}\n", l));
            }
            text.push_str(&format!("{}: {}\nBug: https://bugs.example.org/1\nBug-Debian: https://bugs.debian.org/{}\nBug-Ubuntu: https://launchpad.net/bugs/2\nReviewed-By: R1 <r1@x>\nReviewed-By: R2 <r2@x>\n", af, b[0], flag));
            let h = dep3::lossless::PatchHeader::from_str(&text).map_err(|e| Failure { assertion: "infra/getter".into(), message: format!("{:?}: {}", text, e) })?;
            ensure_eq!(h.description(), Some(first.clone()), "getter/dep3-description", "first description line of {:?}", text);
            ensure_eq!(h.long_description(), Some(rest.join("\n")), "getter/dep3-long-description", "long description of {:?}", text);
            ensure_eq!(h.author(), Some(b[0].clone()), "getter/dep3-author", "author of {:?}", text);
            ensure_eq!(h.vendor_bugs("Debian").collect::<Vec<_>>(), vec![format!("https://bugs.debian.org/{}", flag)], "getter/dep3-vendor-bugs", "{:?}", text);
            ensure_eq!(h.bugs().count(), 3, "getter/dep3-bugs", "{:?}", text);
            ensure_eq!(h.reviewed_by(), vec!["R1 <r1@x>".to_string(), "R2 <r2@x>".to_string()], "getter/dep3-reviewed-by", "{:?}", text);
        }
        5 => {
            // a control file's source and binary paragraphs are found by their Source / Package fields, wherever they are
            let n = 1 + (flag as usize % 3);
            let pos = (flag as usize / 3) % (n + 1);
            let mut paras: Vec<String> = (0..n).map(|i| format!("Package: {}\nArchitecture: any\n", b[i % b.len()])).collect();
            paras.insert(pos, "Maintainer: M <m@x>\nSource: the-source\n".to_string());
            let text = paras.join("\n# c\n\n");
            let mut c = ll::Control::from_str(&text).map_err(|e| Failure { assertion: "infra/getter".into(), message: format!("{:?}: {:?}", text, e.to_string()) })?;
            ensure_eq!(c.source().and_then(|s| s.name()), Some("the-source".to_string()), "control-source-found", "source() of {:?}", text);
            ensure_eq!(c.binaries().filter_map(|x| x.name()).collect::<Vec<_>>(), (0..n).map(|i| b[i % b.len()].clone()).collect::<Vec<_>>(), "control-binaries-found", "binaries() of {:?}", text);
            let nb = c.add_binary("added-bin");
            ensure_eq!(nb.name(), Some("added-bin".to_string()), "add-binary", "name of the added binary");
            ensure_eq!(c.binaries().filter_map(|x| x.name()).last(), Some("added-bin".to_string()), "add-binary-found", "binaries() after add_binary: {:?}", c.to_string());
            ensure!(Deb822::from_str(&c.to_string()).map(|d| d.paragraphs().count() == n + 2).unwrap_or(false), "add-binary-reread", "{:?}", c.to_string());
            let mut e = ll::Control::new();
            let s = e.add_source("new-src");
            ensure_eq!(s.name(), Some("new-src".to_string()), "add-source", "name of the added source");
            ensure_eq!(e.source().and_then(|s| s.name()), Some("new-src".to_string()), "add-source-found", "source() after add_source");
        }
        6 => {
            // changes file getters
            let text = format!(
                "Format: 1.8\nSource: {}\nVersion: 1:2.0~rc1-1\nDistribution: unstable\nUrgency: {}\nMaintainer: {}\nChanged-By: {}\nDescription:\n x - y\nFiles:\n 0123 12 vcs optional {}_1.dsc\n 4567 0 libs/sub extra {}_1.deb\n",
                b[0], ["low", "medium", "HIGH", "critical"][flag as usize % 4], a[0], a[0], b[0], b[0]
            );
            let ch = ll::changes::Changes::read(text.as_bytes()).map_err(|e| Failure { assertion: "infra/getter".into(), message: format!("{:?}: {}", text, e) })?;
            ensure_eq!(ch.source(), Some(b[0].clone()), "getter/changes-source", "{:?}", text);
            ensure_eq!(ch.version().map(|v| v.to_string()), Some("1:2.0~rc1-1".to_string()), "getter/changes-version", "{:?}", text);
            ensure_eq!(ch.maintainer(), Some(a[0].clone()), "getter/changes-maintainer", "{:?}", text);
            ensure_eq!(ch.changed_by(), Some(a[0].clone()), "getter/changes-changed-by", "{:?}", text);
            ensure_eq!(ch.urgency().map(|u| u.to_string()), Some(["low", "medium", "high", "critical"][flag as usize % 4].to_string()), "getter/changes-urgency", "{:?}", text);
            let files = ch.files().unwrap_or_default();
            ensure_eq!(files.iter().map(|f| (f.md5sum.clone(), f.size, f.section.clone(), f.priority.to_string(), f.filename.clone())).collect::<Vec<_>>(), vec![("0123".to_string(), 12, "vcs".to_string(), "optional".to_string(), format!("{}_1.dsc", b[0])), ("4567".to_string(), 0, "libs/sub".to_string(), "extra".to_string(), format!("{}_1.deb", b[0]))], "getter/changes-files", "{:?}", text);
        }
        7 => {
            // Source::vcs(): the first Vcs-* field other than Vcs-Browser, read with the field's own syntax
            let kinds = ["Git", "Bzr", "Hg", "Svn", "Cvs"];
            let k = kinds[flag as usize % 5];
            let url = format!("https://salsa.debian.org/{}/{}.git", b[0], b[b.len() - 1]);
            let (raw, want) = match k {
                "Git" => (format!("{} -b debian/{} [{}]", url, b[0], b[0]), format!("{:?}", debian_control::vcs::Vcs::Git { repo_url: url.clone(), branch: Some(format!("debian/{}", b[0])), subpath: Some(b[0].clone()) })),
                "Bzr" => (format!("{} [{}]", url, b[0]), format!("{:?}", debian_control::vcs::Vcs::Bzr { repo_url: url.clone(), subpath: Some(b[0].clone()) })),
                "Hg" => (url.clone(), format!("{:?}", debian_control::vcs::Vcs::Hg { repo_url: url.clone() })),
                "Svn" => (url.clone(), format!("{:?}", debian_control::vcs::Vcs::Svn { url: url.clone() })),
                _ => (format!(":pserver:anonymous@x:/cvs {}", b[0]), format!("{:?}", debian_control::vcs::Vcs::Cvs { root: ":pserver:anonymous@x:/cvs".into(), module: Some(b[0].clone()) })),
            };
            let text = format!("Source: x\nVcs-Browser: https://example.org/browse\nVcs-{}: {}\n", k, raw);
            let c = ll::Control::from_str(&text).map_err(|e| Failure { assertion: "infra/getter".into(), message: format!("{:?}: {:?}", text, e.to_string()) })?;
            let s = c.source().ok_or_else(|| Failure { assertion: "control-source-found".into(), message: "no source".into() })?;
            ensure_eq!(s.vcs().map(|v| format!("{:?}", v)), Some(want), "getter/source-vcs", "Source::vcs() of {:?}", text);
            ensure_eq!(s.vcs_browser(), Some("https://example.org/browse".to_string()), "getter/vcs-browser", "{:?}", text);
        }
        _ => {
            // copyright: files list, copyright lines, licence forms
            let pats = b.join(if flag & 1 == 1 { "\n " } else { " " });
            let text = format!(
                "Format: https://www.debian.org/doc/packaging-manuals/copyright-format/1.0/\nFiles-Excluded:\n {}\n\nFiles: {}\nCopyright: {}\nLicense: MIT\n {}\n",
                b.join("\n "), pats, a.join("\n "), a.join("\n ")
            );
            let c = debian_copyright::lossless::Copyright::from_str(&text).map_err(|e| Failure { assertion: "infra/getter".into(), message: format!("{:?}: {}", text, e) })?;
            let f = c.iter_files().next().ok_or_else(|| Failure { assertion: "iter-files".into(), message: "no Files paragraph".into() })?;
            ensure_eq!(f.files(), b.to_vec(), "getter/copyright-files", "{:?}", text);
            ensure_eq!(f.copyright(), a.to_vec(), "getter/copyright-copyright", "{:?}", text);
            ensure_eq!(f.license(), Some(debian_copyright::License::Named("MIT".into(), a.join("\n"))), "getter/copyright-license", "{:?}", text);
            ensure_eq!(c.header().and_then(|h| h.files_excluded()), Some(b.to_vec()), "getter/copyright-files-excluded", "{:?}", text);
        }
    }
    Ok(())
}

// ------------------------------------------------------------------------------------------
// generation

fn gen_line(t: &mut Tape) -> String {
    t.pick(&["Joe Example <joe@example.com>", "a b c", "x", "é ü <e@f>", "1.0", "https://example.com/x", "word", "two  spaces", "#hash", "-dash", "colon: inside"]).to_string()
}
/// a continuation line: must not start with '#' (both readers take an indented '#' line for a comment)
fn gen_cont(t: &mut Tape) -> String {
    gen_line(t).trim_start_matches('#').to_string()
}
fn gen_word(t: &mut Tape) -> String {
    t.pick(&["amd64", "main", "foo", "lib-x2", "contrib", "all", "x.y", "é"]).to_string()
}

fn gen_val(t: &mut Tape, kind: &str) -> Val {
    match kind {
        "S" => Val::Str(Some(gen_line(t))),
        "OS" => Val::Str(if t.chance(1, 4) { None } else { Some(gen_line(t)) }),
        "LONGDESC" => Val::Str(Some(if t.flag() { gen_cont(t) } else { format!("{}\n.\n{}", gen_cont(t), gen_cont(t)) })),
        "OS_MULTI" => Val::Str(if t.chance(1, 4) { None } else { Some(format!("{}\n{}\n.\n{}", gen_line(t), gen_cont(t), gen_cont(t))) }),
        "PRIO" => Val::Str(Some(t.pick(&["required", "important", "standard", "optional", "extra"]).to_string())),
        "PRIO_O" => Val::Str(if t.chance(1, 4) { None } else { Some(t.pick(&["required", "important", "standard", "optional", "extra"]).to_string()) }),
        "MA" => Val::Str(Some(t.pick(&["same", "foreign", "no", "allowed"]).to_string())),
        "MA_O" => Val::Str(if t.chance(1, 4) { None } else { Some(t.pick(&["same", "foreign", "no", "allowed"]).to_string()) }),
        "RELREF" | "RELV" | "OREL" => {
            if kind == "OREL" && t.chance(1, 5) {
                return Val::Rel(None);
            }
            let o = RelOpts { max_layout: if t.chance(1, 3) { Layout::L1 } else { Layout::L0 }, max_items: 4, empties: false, ..Default::default() };
            loop {
                let (m, text, _) = rel::gen_field(t, &o);
                if !m.items.is_empty() || t.exhausted() {
                    let text = if m.items.is_empty() { "libc6 (>= 2.14), ${misc:Depends}".to_string() } else { text };
                    // a multi-line value is written with indented continuation lines: drop blank lines and indentation
                    let text = text.split('\n').map(|l| l.trim_matches(|c| c == ' ' || c == '\t')).filter(|l| !l.is_empty()).collect::<Vec<_>>().join("\n");
                    return Val::Rel(Some(text));
                }
            }
        }
        "URLREF" => Val::Str(Some(t.pick(&["https://example.com/", "https://example.com/a?b=c", "http://x.org", "https://é.example/p"]).to_string())),
        "BOOL_OPT" | "BOOL_YN" | "BOOL_CLEAR" => Val::OBool(Some(t.flag())),
        "VER" => Val::Str(Some(t.pick(&["1.0", "1:2.0~rc1-1", "0.5+b1", "2.1.10"]).to_string())),
        "USIZE" => Val::OUsize(Some(*t.pick(&[0usize, 1, 3524, 4294967296]))),
        "LISTREF_COMMA" | "LISTV_COMMA" | "LISTV_SPACE" | "LISTREF_LINES" | "LISTREF_LINES_NOOPT" if t.chance(1, 6) => {
            // a long list: far beyond one 79-column line, so that setters which fold or wrap must still read back the same items
            let n = t.range(8, 30);
            let stem = *t.pick(&["libexample-component", "python3-module-name", "x", "golang-github-owner-project"]);
            let email = kind.ends_with("COMMA");
            Val::OList(Some((0..n).map(|i| if email { format!("{} {} <m{}@example.org>", stem, i, i) } else { format!("{}{}-dev", stem, i) }).collect()))
        }
        "LISTREF_COMMA" | "LISTV_COMMA" => {
            let mut v = vec![t.pick(&["A B <a@b.c>", "Zed <z@y>", "x", "Émile <e@f>"]).to_string()];
            while t.more(v.len(), 1, 3, 1, 2) {
                v.push(t.pick(&["A B <a@b.c>", "Zed <z@y>", "x", "Émile <e@f>"]).to_string());
            }
            Val::OList(Some(v))
        }
        "LISTV_SPACE" => {
            let mut v = vec![gen_word(t)];
            while t.more(v.len(), 1, 4, 1, 2) {
                v.push(gen_word(t));
            }
            Val::OList(Some(v))
        }
        "LISTREF_LINES" | "LISTREF_LINES_NOOPT" => {
            let mut v = vec![t.pick(&["2019 John Doe", "*.orig", "src/x", "2020-2024 É"]).to_string()];
            while t.more(v.len(), 1, 3, 1, 2) {
                v.push(t.pick(&["2019 John Doe", "*.orig", "src/x", "2020-2024 É"]).to_string());
            }
            Val::OList(Some(v))
        }
        "CK_MD5" | "CK_SHA1" | "CK_SHA256" | "CK_SHA512" => {
            let mut v = vec![];
            while t.more(v.len(), 0, 3, 2, 3) {
                v.push((t.pick(&["b7a7d67a02974c52c408fdb5e118406d", "0123", "abc"]).to_string(), t.below(65536), format!("{}_{}.dsc", gen_word(t), v.len())));
            }
            Val::Ck(v)
        }
        "DATE" => {
            // incl. instants next to a year boundary (ISO week-year / time-zone offset effects)
            let secs = [0i64, 1724508829, 951782400, 4102444799, 1735516800, 1609459199, 1609459200, 1704067199, 946684800, 68169600][t.below(10)];
            let off = [0i32, 3600, -18000, 19800][t.below(4)];
            let d = chrono::DateTime::from_timestamp(secs, 0).unwrap().with_timezone(&chrono::FixedOffset::east_opt(off).unwrap());
            Val::ODate(Some(d.to_rfc2822()))
        }
        // incl. days whose ISO week-year, day-of-year or month arithmetic differs from the calendar date
        "NAIVEDATE" => Val::Str(Some(t.pick(&["2024-01-31", "2000-02-29", "1999-12-01", "2024-12-30", "2021-01-01", "2020-12-31", "2000-01-01", "1999-12-31", "2016-01-03", "2023-03-01", "1970-01-01", "2038-01-19"]).to_string())),
        k if k == "UPBUG" || k.starts_with("VBUG:") => Val::Str(Some(if t.flag() { format!("https://bugs.debian.org/{}", 100000 + t.below(60000)) } else { gen_line(t) })),
        "ENV" => {
            let mut v = vec![];
            for (k, val) in [("DEB_BUILD_OPTIONS", "\"parallel=4\""), ("LANG", "\"C.UTF-8\""), ("X", ""), ("PATH", "\"/usr/bin:/bin\"")] {
                if v.is_empty() || t.chance(1, 2) {
                    v.push((k.to_string(), val.to_string()));
                }
            }
            Val::OEnv(Some(v))
        }
        "LICENSE" => {
            let name = t.pick(&["GPL-3+", "MIT", "Expat"]).to_string();
            if t.flag() {
                Val::OLicense(Some(debian_copyright::License::Name(name)))
            } else {
                Val::OLicense(Some(debian_copyright::License::Named(name, format!("{}\n.\n{}", gen_cont(t), gen_cont(t)))))
            }
        }
        "ORIGIN" => {
            let cat = [None, Some(dep3::OriginCategory::Upstream), Some(dep3::OriginCategory::Backport), Some(dep3::OriginCategory::Vendor), Some(dep3::OriginCategory::Other)][t.below(5)];
            let o = if t.flag() { dep3::Origin::Commit(t.pick(&["abc123", "deadbeef"]).to_string()) } else { dep3::Origin::Other(t.pick(&["https://example.com/patch", "http://x/?a=b;c=d", "mailing list"]).to_string()) };
            Val::OOrigin(Some((cat, o)))
        }
        "FORWARDED" => Val::Str(Some(t.pick(&["no", "not-needed", "https://example.com/pr/1", "yes"]).to_string())),
        "APPLIED" => Val::Str(Some(t.pick(&["commit:abc123", "2.0, https://example.com/c/1", "1.2", "1.2, commit:0123abcd"]).to_string())),
        k => panic!("harness: unknown kind {}", k),
    }
}

fn gen_prior(t: &mut Tape, kind: &str) -> Prior {
    // a long description needs a short one to hang on: for that row the field is always present
    let present = t.chance(3, 5) || kind == "LONGDESC";
    Prior {
        stale: if present { Some(stale_for(kind)) } else { None },
        comment_before_target: t.chance(1, 3),
        comment_after_target: t.chance(1, 3),
        fields_before: t.below(3),
        fields_after: t.below(3),
        leading_comment: t.chance(1, 3),
        other_paragraph: t.chance(1, 2),
        mail_form: t.chance(1, 3),
        case_variant: if t.chance(1, 6) { t.range(1, 2) as u8 } else { 0 },
        wrapped: t.chance(1, 6),
    }
}

impl PropImpl for C15 {
    type Case = Case;
    fn id(&self) -> &'static str {
        "C15"
    }
    fn rule(&self) -> String {
        format!(
            "cases are (accessor row, prior paragraph state, 1-3 values): {} getter/setter pairs of the lossless typed views (control Source/Binary, apt Source/Package/Release, Buildinfo, Changes, copyright header/Files \
             paragraphs, DEP-3 header) with the Debian field name each is documented for (written from Policy / the format specifications, compared case-insensitively), a value generator per type and prior states {{field \
             absent, present once with a stale value, comments before/after it, 0-2 foreign fields before and after, leading comment, a second paragraph}}; (E) every row x 8 prior states with one value. After each setter: \
             getter = value, exactly one field of the documented name (none after a clearing setter), all other fields unchanged, byte frame around the touched field, strict re-read equal. Plus 8 families of getter-only \
             checks on generated raw text (comma / space / line lists, checksum triples, yes/no flags, DEP-3 first description line and fallbacks, Control::source()/binaries()/add_*, Changes and copyright getters). \
             Non-trivial: the field pre-existed or had neighbours/comments. Distinct by hash of the case.",
            ROWS.len()
        )
    }
    fn assumptions(&self) -> Vec<String> {
        vec!["empty lists and a licence without a short name are not 'valid values' of Uploaders-like fields / DEP-5 Files paragraphs".into(), "getters that unwrap a parse are exercised with valid stored values only".into()]
    }
    fn expected_labels(&self) -> Vec<&'static str> {
        let mut v: Vec<&'static str> = ROWS.iter().map(|r| r.label).collect();
        v.extend(["prior:field-present", "prior:field-absent", "prior:comments-around-field", "prior:fields-before", "prior:fields-after", "prior:second-paragraph", "prior:field-with-the-same-name-in-other-letter-case", "prior:document-is-the-result-of-wrap-and-sort", "several-setter-calls", "setter-called-twice-with-the-same-value", "consecutive-lists-share-a-prefix", "value:list-longer-than-a-line", "clearing-setter", "sibling-field-holds-the-same-value", "getter:comma-lists", "getter:space-lists", "getter:checksum-triples", "getter:yes-no-flags", "getter:dep3", "getter:control-roles", "getter:changes", "getter:source-vcs", "getter:copyright", "getter:relationship-fields-of-every-view", "getter:relationship-field-with-substitution-variable"]);
        v
    }
    fn budget(&self, tier: Tier) -> Budget {
        Budget { cases_per_lane: if tier == Tier::Quick { 22500 } else { 90000 }, tape_max: 300, cpu_s: 10 }
    }
    fn spaces(&self, _tier: Tier) -> Vec<Space> {
        vec![Space { name: "every accessor row x 8 prior states".into(), size: ROWS.len() as u64 * 8, exhaustive: true }]
    }
    fn from_enum(&self, _ctx: &mut Ctx, _tier: Tier, _space: usize, index: u64) -> Case {
        let row = (index / 8) as usize;
        let s = index % 8;
        let kind = ROWS[row].kind;
        // a deterministic value per row/state: decode from a tiny fixed tape
        let bytes = [(s * 37 + 11) as u8, (row * 13) as u8, 200, 90, 17, 140, 33, 250, 7, 99, 180, 60];
        let mut t = Tape::new(&bytes);
        let val = gen_val(&mut t, kind);
        let prior = Prior {
            stale: if s & 1 == 1 || kind == "LONGDESC" { Some(stale_for(kind)) } else { None },
            comment_before_target: s & 2 == 2,
            comment_after_target: s & 2 == 2,
            fields_before: if s & 4 == 4 { 2 } else { 0 },
            fields_after: if s & 4 == 4 { 1 } else { 0 },
            leading_comment: s & 2 == 2,
            other_paragraph: s & 4 == 4,
            mail_form: s == 3 || s == 6,
            case_variant: 0,
            wrapped: false,
        };
        Case::Set { row, prior, vals: vec![val], sibling: None }
    }
    fn decode(&self, _ctx: &mut Ctx, t: &mut Tape) -> Case {
        if t.chance(1, 25) {
            let o = RelOpts { max_layout: Layout::L1, max_items: 4, ..Default::default() };
            let (model, text, _) = rel::gen_field(t, &o);
            return Case::RelGetters { model, text };
        }
        if t.chance(1, 5) {
            let which = t.below(GETTERS);
            let mut a = vec![gen_line(t).replace(',', ";")];
            while t.more(a.len(), 1, 4, 1, 2) {
                a.push(gen_line(t).replace(',', ";"));
            }
            let mut b = vec![gen_word(t)];
            while t.more(b.len(), 1, 4, 1, 2) {
                b.push(gen_word(t));
            }
            // getter inputs are single-spaced, non-'#' starting lines (continuation lines starting with '#' are comments)
            let a = a.into_iter().map(|x| x.replace("  ", " ").trim_start_matches('#').to_string()).collect();
            return Case::Getter { which, a, b, flag: t.byte() };
        }
        let row = t.below(ROWS.len());
        let kind = ROWS[row].kind;
        let prior = gen_prior(t, kind);
        let mut vals = vec![gen_val(t, kind)];
        while t.more(vals.len(), 1, 3, 1, 4) {
            // the next value is fresh, or related to the previous one: the same again, a list extended or cut by one
            // item (common prefix), or a free-text string with a doubled blank
            let prev = vals.last().unwrap().clone();
            let next = match (t.below(4), prev) {
                (0, p) => p,
                (1, Val::OList(Some(mut l))) => {
                    if l.len() >= 2 && t.flag() {
                        l.pop();
                    } else {
                        let extra = format!("{}-2", l.last().cloned().unwrap_or_else(|| "x".into()).split(' ').next().unwrap());
                        l.push(if kind.ends_with("COMMA") { format!("{} <e@x.org>", extra) } else { extra });
                    }
                    Val::OList(Some(l))
                }
                (1, Val::Str(Some(p))) if (kind == "S" || kind == "OS") && p.contains(' ') => Val::Str(Some(p.replacen(' ', "  ", 1))),
                _ => gen_val(t, kind),
            };
            vals.push(next);
        }
        let siblings: Vec<usize> = (0..ROWS.len()).filter(|&i| ROWS[i].view == ROWS[row].view && ROWS[i].kind == kind && !ROWS[i].field.eq_ignore_ascii_case(ROWS[row].field)).collect();
        let sibling = if !siblings.is_empty() && t.chance(1, 3) { Some(siblings[t.below(siblings.len())]) } else { None };
        Case::Set { row, prior, vals, sibling }
    }
    fn classify(&self, ctx: &mut Ctx, case: &Case) {
        ctx.set_hash(&format!("{:?}", case));
        match case {
            Case::Set { row, prior, vals, sibling } => {
                ctx.label(ROWS[*row].label);
                ctx.label_if(sibling.is_some(), "sibling-field-holds-the-same-value");
                ctx.label(if prior.stale.is_some() { "prior:field-present" } else { "prior:field-absent" });
                ctx.label_if(prior.comment_before_target || prior.comment_after_target, "prior:comments-around-field");
                ctx.label_if(prior.fields_before > 0, "prior:fields-before");
                ctx.label_if(prior.fields_after > 0, "prior:fields-after");
                ctx.label_if(prior.other_paragraph, "prior:second-paragraph");
                ctx.label_if(prior.case_variant != 0, "prior:field-with-the-same-name-in-other-letter-case");
                ctx.label_if(prior.wrapped && !matches!(ROWS[*row].view, View::CopyHeader | View::CopyFiles | View::Dep3 | View::Changes), "prior:document-is-the-result-of-wrap-and-sort");
                ctx.label_if(vals.len() > 1, "several-setter-calls");
                ctx.label_if(vals.windows(2).any(|w| w[0] == w[1]), "setter-called-twice-with-the-same-value");
                ctx.label_if(vals.windows(2).any(|w| matches!((&w[0], &w[1]), (Val::OList(Some(a)), Val::OList(Some(b))) if a != b && (a.starts_with(b) || b.starts_with(a)))), "consecutive-lists-share-a-prefix");
                ctx.label_if(vals.iter().any(|v| matches!(v, Val::OList(Some(l)) if l.iter().map(|x| x.len() + 1).sum::<usize>() > 100)), "value:list-longer-than-a-line");
                ctx.label_if(vals.iter().any(|v| v.is_clearing(ROWS[*row].kind)), "clearing-setter");
                ctx.nontrivial = prior.stale.is_some() || prior.fields_before + prior.fields_after > 0 || prior.comment_before_target || prior.comment_after_target;
            }
            Case::RelGetters { model, .. } => {
                ctx.label("getter:relationship-fields-of-every-view");
                ctx.label_if(model.has_substvar(), "getter:relationship-field-with-substitution-variable");
                ctx.nontrivial = true;
            }
            Case::Getter { which, .. } => {
                ctx.label(["getter:comma-lists", "getter:space-lists", "getter:checksum-triples", "getter:yes-no-flags", "getter:dep3", "getter:control-roles", "getter:changes", "getter:source-vcs", "getter:copyright"][*which]);
                ctx.nontrivial = true;
            }
        }
    }
    fn check(&self, _ctx: &mut Ctx, case: &Case) -> CheckResult {
        match case {
            Case::Set { row, prior, vals, sibling } => check_set(*row, prior, vals, *sibling),
            Case::Getter { which, a, b, flag } => check_getter(*which, a, b, *flag),
            Case::RelGetters { model, text } => {
                if model.entries().is_empty() && model.substvars().is_empty() {
                    return Ok(());
                }
                check_rel_getters(model, text)
            }
        }
    }
    fn render(&self, case: &Case) -> String {
        match case {
            Case::Set { row, prior, vals, sibling } => {
                let r = &ROWS[*row];
                format!("{:?}::{} / {}  (field {:?}, kind {})\nstart document {:?}\nvalues {:?}\nsibling called first with values[0]: {:?}", r.view, r.setter, r.getter, r.field, r.kind, build_doc(r, prior).0, vals, sibling.map(|i| ROWS[i].setter))
            }
            c => format!("{:?}", c),
        }
    }
}
