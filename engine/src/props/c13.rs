//! C13 Relation wrap-and-sort yields a canonical, sorted, meaning-preserving form.
use crate::gen::rel::{self, Item, Layout, Rel, RelField, RelOpts};
use crate::props::c10::{lossless_entries, same_rel};
use crate::tape::Tape;
use crate::{ensure, ensure_eq, fail, Budget, CheckResult, Ctx, PropImpl, Space, Tier};
use debian_control::lossless::relations as ll;
use std::str::FromStr;

pub struct C13;

pub struct Case {
    pub field: RelField,
    pub text: String,
}

fn multiset_eq(got: &[Vec<Rel>], want: &[Vec<Rel>]) -> bool {
    // entries as multisets of alternatives, field as multiset of entries; versions compared as text
    let norm = |e: &Vec<Rel>| {
        let mut v: Vec<Rel> = e.clone();
        v.sort();
        v
    };
    let mut g: Vec<Vec<Rel>> = got.iter().map(norm).collect();
    let mut w: Vec<Vec<Rel>> = want.iter().map(norm).collect();
    g.sort();
    w.sort();
    g.len() == w.len() && g.iter().zip(w.iter()).all(|(a, b)| a.len() == b.len() && a.iter().zip(b.iter()).all(|(x, y)| same_rel(x, y)))
}

pub fn check_normalised(field: &RelField, text: &str, out: &str, ctx_name: &str) -> CheckResult {
    // (a) canonical single-line text: the reference parser for canonical text reads it, and printing what it read gives the same text
    let parsed = match rel::ref_parse_field(out) {
        Ok(p) => p,
        Err(e) => return fail("canonical-form", format!("{}: normalised text {:?} (from {:?}) is not canonical: {}", ctx_name, out, text, e)),
    };
    ensure_eq!(parsed.canonical(), out, "canonical-form", "{}: normalised text of {:?} is not in canonical form (empty entries / spacing)", ctx_name, text);
    ensure!(!parsed.has_empty(), "no-empty-entries", "{}: normalised text {:?} still has an empty entry", ctx_name, out);
    // (b) sorted
    let entries = parsed.entries();
    for e in &entries {
        ensure!(e.windows(2).all(|w| w[0].name <= w[1].name), "alternatives-sorted", "{}: alternatives of {:?} are not sorted by package name in {:?}", ctx_name, e.iter().map(|r| r.name.clone()).collect::<Vec<_>>(), out);
    }
    // the statement says "sorted" without fixing the key beyond package names: the leading package names
    // must be non-decreasing (how entries with the same leading name are ordered is not claimed)
    let keys: Vec<&String> = entries.iter().filter_map(|e| e.first().map(|r| &r.name)).collect();
    ensure!(keys.windows(2).all(|w| w[0] <= w[1]), "entries-sorted", "{}: entries are not sorted by their leading package name in {:?}", ctx_name, out);
    // (c) same dependencies
    ensure!(multiset_eq(&entries, &field.entries()), "meaning-preserved", "{}: normalising {:?} gave {:?}: entries {:?}, written {:?}", ctx_name, text, out, entries, field.entries());
    let mut sv = parsed.substvars();
    let mut wsv = field.substvars();
    sv.sort();
    wsv.sort();
    ensure_eq!(sv, wsv, "substvars-preserved", "{}: substitution variables after normalising {:?} to {:?}", ctx_name, text, out);
    // (d) strict parse
    let (re, errs) = ll::Relations::parse_relaxed(out, true);
    ensure!(errs.is_empty(), "result-parses", "{}: normalised text {:?} has errors {:?}", ctx_name, out, errs);
    if !field.has_substvar() {
        ensure!(ll::Relations::from_str(out).is_ok(), "result-parses-strictly", "{}: Relations::from_str rejects {:?}", ctx_name, out);
    }
    ensure!(multiset_eq(&lossless_entries(&re)?, &field.entries()), "reread-meaning", "{}: the library's own re-read of {:?} differs from what was written", ctx_name, out);
    // (e) idempotent
    let again = re.wrap_and_sort().to_string();
    ensure_eq!(again, out, "idempotent", "{}: normalising the re-read of {:?} again", ctx_name, out);
    Ok(())
}

impl PropImpl for C13 {
    type Case = Case;
    fn id(&self) -> &'static str {
        "C13"
    }
    fn rule(&self) -> String {
        "cases are well-formed relationship fields rendered from a known model in any layout (L0-L3: spaces/tabs/newlines anywhere whitespace may go), 0-6 items incl. empty entries and substitution \
         variables, all optional parts, epochs, negated architectures, multi-term profile groups; parsed with parse_relaxed(_, true) and normalised with Relations::wrap_and_sort; Entry/Relation \
         wrap_and_sort on the parts. Oracle: harness-side reference parser/canonical printer. Non-trivial: the input text differs from its canonical sorted form and has >= 2 entries or an optional part. \
         Distinct by text hash.".into()
    }
    fn expected_labels(&self) -> Vec<&'static str> {
        vec!["has:substvar", "has:empty-entry", "has:newline", "has:negated-architecture", "has:multi-term-profile-group", "has:epoch", "input-unsorted"]
    }
    fn budget(&self, tier: Tier) -> Budget {
        Budget { cases_per_lane: if tier == Tier::Quick { 45000 } else { 180000 }, tape_max: 500, cpu_s: 10 }
    }
    fn spaces(&self, _tier: Tier) -> Vec<Space> {
        vec![]
    }
    fn decode(&self, _ctx: &mut Ctx, t: &mut Tape) -> Case {
        let o = RelOpts { max_layout: Layout::L3, max_items: 6, ..Default::default() };
        let (field, text, _) = rel::gen_field(t, &o);
        Case { field, text }
    }
    fn classify(&self, ctx: &mut Ctx, case: &Case) {
        ctx.set_hash(&case.text);
        let f = &case.field;
        ctx.label_if(f.has_substvar(), "has:substvar");
        ctx.label_if(f.has_empty(), "has:empty-entry");
        ctx.label_if(case.text.contains('\n'), "has:newline");
        ctx.label_if(f.rels().any(|r| r.archs.as_ref().map(|a| a.iter().any(|x| x.0)).unwrap_or(false)), "has:negated-architecture");
        ctx.label_if(f.rels().any(|r| r.profiles.iter().any(|g| g.len() > 1)), "has:multi-term-profile-group");
        ctx.label_if(f.rels().any(|r| r.version.as_ref().map(|v| v.1.contains(':')).unwrap_or(false)), "has:epoch");
        let entries = f.entries();
        let names: Vec<Vec<&String>> = entries.iter().map(|e| e.iter().map(|r| &r.name).collect()).collect();
        let unsorted = !names.windows(2).all(|w| w[0].first() <= w[1].first()) || names.iter().any(|e| !e.windows(2).all(|w| w[0] <= w[1]));
        ctx.label_if(unsorted, "input-unsorted");
        ctx.nontrivial = (case.text != f.canonical() || unsorted) && (entries.len() >= 2 || f.rels().any(|r| r.optional_parts() >= 1));
    }
    fn check(&self, _ctx: &mut Ctx, case: &Case) -> CheckResult {
        let (r, errs) = ll::Relations::parse_relaxed(&case.text, true);
        ensure!(errs.is_empty(), "start-parses", "well-formed field {:?} has errors {:?}", case.text, errs);
        // Entry- and Relation-level normalisation of the parts
        for (e, m) in r.entries().zip(case.field.entries().iter()) {
            let one = RelField { items: vec![Item::Entry(m.clone())] };
            check_normalised(&one, &e.to_string(), &e.wrap_and_sort().to_string(), "Entry::wrap_and_sort")?;
            for (x, mx) in e.relations().zip(m.iter()) {
                ensure_eq!(x.wrap_and_sort().to_string(), mx.canonical(), "relation-canonical", "Relation::wrap_and_sort of {:?}", x.to_string());
            }
        }
        // "sorted" presupposes an ordering: the public Ord of entries must be a total preorder on this
        // field's entries (antisymmetric and transitive), otherwise the result of sorting is unspecified
        let es: Vec<ll::Entry> = r.entries().collect();
        for a in &es {
            for b in &es {
                ensure!(a.cmp(b) == b.cmp(a).reverse(), "ordering-antisymmetric", "Entry ordering of {:?} vs {:?} is not antisymmetric", a.to_string(), b.to_string());
                for c in &es {
                    if a.cmp(b) != std::cmp::Ordering::Greater && b.cmp(c) != std::cmp::Ordering::Greater {
                        ensure!(a.cmp(c) != std::cmp::Ordering::Greater, "ordering-transitive", "Entry ordering is not transitive: {:?} <= {:?} <= {:?} but the first is greater than the last", a.to_string(), b.to_string(), c.to_string());
                    }
                }
            }
        }
        let w = r.wrap_and_sort();
        let out = w.to_string();
        // the returned object denotes what its text says: its accessors agree with a re-read of the text
        let (re, _) = ll::Relations::parse_relaxed(&out, true);
        let live = lossless_entries(&w)?;
        let reread = lossless_entries(&re)?;
        ensure!(crate::props::c10::same_entries(&live, &reread), "live-result-agrees-with-its-text", "Relations::wrap_and_sort of {:?} returns an object that prints {:?} but reports {:?} (a re-read of that text gives {:?})", case.text, out, live, reread);
        ensure_eq!(w.substvars().collect::<Vec<_>>(), re.substvars().collect::<Vec<_>>(), "live-result-agrees-with-its-text", "substitution variables of the object returned for {:?}", case.text);
        check_normalised(&case.field, &case.text, &out, "Relations::wrap_and_sort")
    }
    fn render(&self, case: &Case) -> String {
        format!("field text {:?}\nmodel {:?}", case.text, case.field)
    }
}
