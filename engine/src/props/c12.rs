//! C12 Dependency satisfaction is decided per Debian semantics.
use crate::gen::rel::Op;
use crate::props::c10::vc_of;
use crate::tape::Tape;
use crate::{ensure, ensure_eq, fail, Budget, CheckResult, Ctx, PropImpl, Space, Tier};
use debian_control::lossless::relations as ll;
use debian_control::lossy;
use debian_control::VersionLookup;
use debversion::Version;
use std::collections::HashMap;
use std::str::FromStr;

pub struct C12;

/// Versions in non-decreasing Debian order (epochs, revisions, '~'); RANK gives the order, equal ranks are equal
/// versions under Debian ordering (an absent epoch is epoch 0, an absent revision sorts as revision 0).
pub const POOL: [&str; 14] = ["0.9", "1.0~rc1", "1.0-0~ppa1", "1.0", "0:1.0", "1.0-0", "1.0-1~bpo12+1", "1.0-1", "1.0-1+b1", "1.1", "0:1.1", "1:0.1", "1:0.1-0", "2:0~"];
pub const RANK: [u8; 14] = [0, 1, 2, 3, 3, 3, 4, 5, 6, 7, 7, 8, 8, 9];
pub const PKGS: [&str; 3] = ["a", "b", "c"];

#[derive(Debug, Clone, PartialEq, Eq, Hash)]
pub struct Alt {
    pub pkg: usize,
    pub cons: Option<(Op, usize)>,
}

pub struct Case {
    pub entries: Vec<Vec<Alt>>,
    pub installed: [Option<usize>; 3],
    pub origin: &'static str,
}

fn reference_alt(a: &Alt, installed: &[Option<usize>; 3]) -> bool {
    match (installed[a.pkg], &a.cons) {
        (None, _) => false,
        (Some(_), None) => true,
        (Some(have), Some((op, want))) => {
            let (have, want) = (RANK[have], RANK[*want]);
            match op {
                Op::Lt => have < want,
                Op::Le => have <= want,
                Op::Eq => have == want,
                Op::Ge => have >= want,
                Op::Gt => have > want,
            }
        }
    }
}

fn reference(entries: &[Vec<Alt>], installed: &[Option<usize>; 3]) -> bool {
    entries.iter().all(|e| e.iter().any(|a| reference_alt(a, installed)))
}

fn alt_text(a: &Alt) -> String {
    match &a.cons {
        None => PKGS[a.pkg].to_string(),
        Some((op, v)) => format!("{} ({} {})", PKGS[a.pkg], op.text(), POOL[*v]),
    }
}

fn v(i: usize) -> Version {
    Version::from_str(POOL[i]).expect("pool versions are valid")
}

fn check(case: &Case) -> CheckResult {
    // trusted base: the version crate orders the pool as Debian policy does
    for i in 0..POOL.len() {
        for j in 0..POOL.len() {
            if v(i).cmp(&v(j)) != RANK[i].cmp(&RANK[j]) {
                return fail("infra/trusted-base", format!("debversion orders {} vs {} differently from Debian policy", POOL[i], POOL[j]));
            }
        }
    }
    let want = reference(&case.entries, &case.installed);
    let inst = case.installed;
    let lookup = move |name: &str| -> Option<Version> { PKGS.iter().position(|p| *p == name).and_then(|k| inst[k]).map(v) };
    let map: HashMap<String, Version> = (0..3).filter_map(|k| inst[k].map(|x| (PKGS[k].to_string(), v(x)))).collect();
    // the three lookup forms answer identically
    for name in ["a", "b", "c", "d", ""] {
        let by_closure = lookup.lookup_version(name).map(|c| c.into_owned());
        let by_map = map.lookup_version(name).map(|c| c.into_owned());
        ensure_eq!(by_map, by_closure, "lookup-forms-agree", "map vs closure lookup of {:?}", name);
        for k in 0..3 {
            if let Some(x) = inst[k] {
                let pair = (PKGS[k].to_string(), v(x));
                let by_pair = pair.lookup_version(name).map(|c| c.into_owned());
                let expect = if name == PKGS[k] { Some(v(x)) } else { None };
                ensure_eq!(by_pair, expect, "lookup-pair", "(name, version) lookup of {:?}", name);
            }
        }
    }
    let text = case.entries.iter().map(|e| e.iter().map(alt_text).collect::<Vec<_>>().join(" | ")).collect::<Vec<_>>().join(", ");
    // lossless, parsed
    let parsed = match ll::Relations::from_str(&text) {
        Ok(r) => r,
        Err(e) => return fail("lossless-parse", format!("lossless reader rejects {:?}: {}", text, e)),
    };
    ensure_eq!(parsed.satisfied_by(lookup), want, "lossless-parsed", "lossless Relations::satisfied_by on {:?} with installed {:?}", text, case.installed);
    // lossless, built with the constructors
    let built = ll::Relations::from(
        case.entries
            .iter()
            .map(|e| ll::Entry::from(e.iter().map(|a| ll::Relation::new(PKGS[a.pkg], a.cons.as_ref().map(|(op, x)| (vc_of(*op), v(*x))))).collect::<Vec<_>>()))
            .collect::<Vec<_>>(),
    );
    ensure_eq!(built.satisfied_by(lookup), want, "lossless-built", "lossless Relations::satisfied_by on constructed {:?} with installed {:?}", built.to_string(), case.installed);
    for (e, m) in parsed.entries().zip(case.entries.iter()) {
        let we = m.iter().any(|a| reference_alt(a, &case.installed));
        ensure_eq!(e.satisfied_by(lookup), we, "lossless-entry", "lossless Entry::satisfied_by on {:?} with installed {:?}", e.to_string(), case.installed);
    }
    // lossy, parsed and constructed
    let lparsed = match lossy::Relations::from_str(&text) {
        Ok(r) => r,
        Err(e) => return fail("lossy-parse", format!("lossy reader rejects {:?}: {}", text, e)),
    };
    ensure_eq!(lparsed.satisfied_by(lookup), want, "lossy-parsed", "lossy Relations::satisfied_by on {:?} with installed {:?}", text, case.installed);
    let lbuilt = lossy::Relations(
        case.entries
            .iter()
            .map(|e| e.iter().map(|a| lossy::Relation { name: PKGS[a.pkg].to_string(), archqual: None, architectures: None, version: a.cons.as_ref().map(|(op, x)| (vc_of(*op), v(*x))), profiles: vec![] }).collect())
            .collect(),
    );
    ensure_eq!(lbuilt.satisfied_by(lookup), want, "lossy-built", "lossy Relations::satisfied_by on constructed value with installed {:?}", case.installed);
    for (e, m) in lbuilt.0.iter().zip(case.entries.iter()) {
        for (r, a) in e.iter().zip(m.iter()) {
            let wa = reference_alt(a, &case.installed);
            ensure_eq!(r.satisfied_by(lookup), wa, "lossy-relation-closure", "lossy Relation::satisfied_by(closure) on {:?}", r.to_string());
            ensure_eq!(r.satisfied_by(map.clone()), wa, "lossy-relation-map", "lossy Relation::satisfied_by(map) on {:?}", r.to_string());
            // the single (name, version) form stands for "only that package is installed"
            for k in 0..3 {
                if let Some(x) = inst[k] {
                    let mut only = [None; 3];
                    only[k] = Some(x);
                    ensure_eq!(r.satisfied_by((PKGS[k].to_string(), v(x))), reference_alt(a, &only), "lossy-relation-pair", "lossy Relation::satisfied_by((name, version)) on {:?} with {}={}", r.to_string(), PKGS[k], POOL[x]);
                }
            }
        }
    }
    ensure!(true, "", "");
    Ok(())
}

// ---- enumeration
const TABLE1: u64 = (1 + 5 * POOL.len() as u64) * (1 + POOL.len() as u64); // one alternative: constraint x installed(a)
fn alt8(i: usize) -> Alt {
    // pkg in {a,b} x constraint in {none, >= v3, << v3, = v3}
    let pkg = i % 2;
    let cons = [None, Some((Op::Ge, 7)), Some((Op::Lt, 7)), Some((Op::Eq, 7))][i / 2].clone();
    Alt { pkg, cons }
}
fn entry72(i: usize) -> Vec<Alt> {
    if i < 8 {
        vec![alt8(i)]
    } else {
        vec![alt8((i - 8) / 8), alt8((i - 8) % 8)]
    }
}
const NEST: u64 = (72 + 72 * 72) * 16;

impl PropImpl for C12 {
    type Case = Case;
    fn id(&self) -> &'static str {
        "C12"
    }
    fn rule(&self) -> String {
        "cases are (field, installed assignment): fields of 0-4 entries x 1-3 alternatives over packages {a,b,c}, each unversioned or (op, version) with all five operators and a pool of 11 versions in \
         known Debian order (0.9 < 1.0~rc1 < 1.0 = 0:1.0 < 1.0-1 < 1.0-1+b1 < 1.1 = 0:1.1 < 1:0.1 = 1:0.1-0 < 2:0~); installed: per package absent or a pool version. (E) the full decision table of one alternative \
         (56 constraints x 12 installed states) and all 1-2 entry x 1-2 alternative nestings over two packages x 16 assignments (84096). Oracle: a reference evaluator written from the statement; \
         lossless (parsed and constructed) and lossy (parsed and constructed) evaluators, Entry/Relation level, and the map / closure / (name, version) lookup forms must all agree with it. \
         Non-trivial: a versioned alternative whose package is installed. Distinct by hash of (field, assignment).".into()
    }
    fn assumptions(&self) -> Vec<String> {
        vec!["the debversion crate's ordering is cross-checked against the pool's known order in every case; a disagreement is reported as an infrastructure error, not as a violation".into()]
    }
    fn expected_labels(&self) -> Vec<&'static str> {
        vec!["op:<<", "op:<=", "op:=", "op:>=", "op:>>", "installed:lower", "installed:equal", "installed:higher", "installed:absent", "installed:equal-but-spelled-differently", "epoch-vs-no-epoch", "tilde", "expected:satisfied", "expected:unsatisfied"]
    }
    fn budget(&self, tier: Tier) -> Budget {
        Budget { cases_per_lane: if tier == Tier::Quick { 30000 } else { 120000 }, tape_max: 200, cpu_s: 10 }
    }
    fn spaces(&self, _tier: Tier) -> Vec<Space> {
        vec![
            Space { name: "decision table: one alternative x constraint x installed".into(), size: TABLE1, exhaustive: true },
            Space { name: "nestings: 1-2 entries x 1-2 alternatives over {a,b} x 16 assignments".into(), size: NEST, exhaustive: true },
        ]
    }
    fn from_enum(&self, _ctx: &mut Ctx, _tier: Tier, space: usize, index: u64) -> Case {
        if space == 0 {
            let c = (index / (1 + POOL.len() as u64)) as usize;
            let inst = (index % (1 + POOL.len() as u64)) as usize;
            let cons = if c == 0 { None } else { Some((Op::ALL[(c - 1) % 5], (c - 1) / 5)) };
            Case { entries: vec![vec![Alt { pkg: 0, cons }]], installed: [if inst == 0 { None } else { Some(inst - 1) }, None, None], origin: "table" }
        } else {
            let asg = (index % 16) as usize;
            let f = (index / 16) as usize;
            let entries = if f < 72 { vec![entry72(f)] } else { vec![entry72((f - 72) / 72), entry72((f - 72) % 72)] };
            let lvl = |x: usize| [None, Some(3), Some(7), Some(9)][x];
            Case { entries, installed: [lvl(asg % 4), lvl(asg / 4), None], origin: "nesting" }
        }
    }
    fn decode(&self, _ctx: &mut Ctx, t: &mut Tape) -> Case {
        let mut installed = [None; 3];
        for k in 0..3 {
            installed[k] = if t.chance(2, 3) { Some(t.below(POOL.len())) } else { None };
        }
        let mut entries = vec![];
        while t.more(entries.len(), 0, 4, 3, 4) {
            let mut e = vec![];
            while t.more(e.len(), 1, 3, 1, 3) {
                let pkg = t.below(3);
                let cons = if t.chance(2, 3) { Some((*t.pick(&Op::ALL), t.below(POOL.len()))) } else { None };
                e.push(Alt { pkg, cons });
            }
            entries.push(e);
        }
        Case { entries, installed, origin: "random" }
    }
    fn classify(&self, ctx: &mut Ctx, case: &Case) {
        ctx.set_hash(&(&case.entries, case.installed));
        ctx.label(match case.origin { "table" => "origin:table", "nesting" => "origin:nesting", _ => "origin:random" });
        ctx.label(if reference(&case.entries, &case.installed) { "expected:satisfied" } else { "expected:unsatisfied" });
        let mut nt = false;
        for a in case.entries.iter().flatten() {
            if let (Some((op, w)), Some(h)) = (&a.cons, case.installed[a.pkg]) {
                nt = true;
                ctx.label(match op { Op::Lt => "op:<<", Op::Le => "op:<=", Op::Eq => "op:=", Op::Ge => "op:>=", Op::Gt => "op:>>" });
                ctx.label(if RANK[h] < RANK[*w] { "installed:lower" } else if RANK[h] == RANK[*w] { "installed:equal" } else { "installed:higher" });
                ctx.label_if(h != *w && RANK[h] == RANK[*w], "installed:equal-but-spelled-differently");
                ctx.label_if(POOL[*w].contains(':') != POOL[h].contains(':'), "epoch-vs-no-epoch");
                ctx.label_if(POOL[*w].contains('~') || POOL[h].contains('~'), "tilde");
            }
            ctx.label_if(case.installed[a.pkg].is_none(), "installed:absent");
        }
        ctx.label_if(case.entries.is_empty(), "empty-field");
        ctx.nontrivial = nt;
    }
    fn check(&self, _ctx: &mut Ctx, case: &Case) -> CheckResult {
        check(case)
    }
    fn render(&self, case: &Case) -> String {
        let text = case.entries.iter().map(|e| e.iter().map(alt_text).collect::<Vec<_>>().join(" | ")).collect::<Vec<_>>().join(", ");
        let inst: Vec<String> = (0..3).map(|k| format!("{}={}", PKGS[k], case.installed[k].map(|x| POOL[x]).unwrap_or("absent"))).collect();
        format!("field {:?} installed {}", text, inst.join(" "))
    }
}
