//! C07 (control-file wrappers): Control/Source/Binary::wrap_and_sort on control-shaped documents.
use crate::gen::doc::{self, Doc, Field, GapLine, Para};
use crate::gen::rel::{self, Layout, RelField, RelOpts};
use crate::gen::scan::scan;
use crate::tape::Tape;
use crate::{ensure, ensure_eq, fail, CheckResult, Ctx};
use deb822_lossless::{Deb822, Indentation};
use debian_control::lossless::control::Control;
use std::collections::HashMap;
use std::str::FromStr;

/// Relation-valued fields of debian/control (Debian Policy 7.1 / 5.6).
pub const REL_FIELDS: &[&str] = &[
    "Build-Depends", "Build-Depends-Indep", "Build-Depends-Arch", "Build-Conflicts", "Build-Conflicts-Indep", "Build-Conflicts-Arch", "Depends", "Recommends", "Suggests", "Enhances", "Pre-Depends",
    "Breaks", "Conflicts", "Replaces", "Provides", "Built-Using",
];
const SRC_REL: &[&str] = &["Build-Depends", "Build-Depends-Indep", "Build-Depends-Arch", "Build-Conflicts", "Build-Conflicts-Indep", "Build-Conflicts-Arch"];
const BIN_REL: &[&str] = &["Depends", "Recommends", "Suggests", "Enhances", "Pre-Depends", "Breaks", "Conflicts", "Replaces", "Provides", "Built-Using"];

#[derive(Debug, Clone, Copy, PartialEq, Eq)]
pub enum CLevel {
    Control,
    Source,
    Binary(usize),
}

pub struct ControlCase {
    pub doc: Doc,
    pub level: CLevel,
    pub indent: Indentation,
    pub immediate_empty_line: bool,
    pub one_liner: Option<usize>,
    /// (paragraph, field) -> relation model
    pub rels: HashMap<(usize, usize), RelField>,
    /// (paragraph, field) -> uploader items
    pub uploaders: HashMap<(usize, usize), Vec<String>>,
}

fn tw(l: &str) -> &str {
    l.trim_matches(|c| c == ' ' || c == '\t')
}

fn value_lines(text: &str) -> Vec<String> {
    // turn a (possibly multi-line) raw value into deb822 value lines: leading whitespace of continuation lines is
    // indentation, blank lines cannot be represented
    let mut lines: Vec<String> = vec![];
    for (i, l) in text.split('\n').enumerate() {
        let l = tw(l);
        if i == 0 || !l.is_empty() {
            lines.push(l.to_string());
        }
    }
    lines
}

fn mk_field(t: &mut Tape, name: &str, raw: &str, comments: bool) -> Field {
    let lines = value_lines(raw);
    let n = lines.len();
    let mut f = Field { name: name.to_string(), lines, colon_ws: " ".into(), indents: (1..n).map(|_| if t.chance(1, 3) { "    ".to_string() } else { " ".to_string() }).collect(), comments_before: vec![] };
    if comments && t.chance(1, 8) {
        f.comments_before.push(doc::gen_comment(t, true));
    }
    f
}

pub fn gen_control(ctx: &mut Ctx, t: &mut Tape) -> ControlCase {
    let level = match t.below(4) {
        0 | 1 => CLevel::Control,
        2 => CLevel::Source,
        _ => CLevel::Binary(t.below(3)),
    };
    let indent = if t.chance(1, 4) { Indentation::FieldNameLength } else { Indentation::Spaces(t.range(1, 8) as u32) };
    let immediate_empty_line = t.flag();
    let one_liner = *t.pick(&[None, Some(20), Some(79), Some(10000)]);
    let nbin = t.range(if matches!(level, CLevel::Binary(_)) { 1 } else { 0 }, 3);
    // now and then a paragraph that is neither a source nor a binary paragraph (no Source, no Package field): the wrapper
    // reformats it like the others; its place among the others is not prescribed
    let nkeyless = if level == CLevel::Control && t.chance(1, 5) { t.range(1, 2) } else { 0 };
    let total = nbin + 1 + nkeyless;
    let src_pos = t.below(total);
    let mut keyless_pos: Vec<usize> = vec![];
    for _ in 0..nkeyless {
        let free: Vec<usize> = (0..total).filter(|k| *k != src_pos && !keyless_pos.contains(k)).collect();
        keyless_pos.push(free[t.below(free.len())]);
    }
    let mut d = Doc { final_newline: !t.chance(1, 6), ..Default::default() };
    let mut rels = HashMap::new();
    let mut uploaders = HashMap::new();
    let ro = RelOpts { max_layout: Layout::L1, max_items: 4, ..Default::default() };
    let avoid_hash = ctx.avoid(crate::props::c07::KF_HASH_LINE);
    let _ = avoid_hash;
    let mut bin_names = vec!["zeta", "alpha", "libfoo1", "alpha-dev", "foo"];
    for pi in 0..total {
        let mut p = Para::default();
        let is_src = pi == src_pos;
        if keyless_pos.contains(&pi) {
            p.fields.push(mk_field(t, "X-Note", &format!("note {}", pi), false));
            if t.flag() {
                p.fields.push(mk_field(t, "X-More", "first\nsecond", true));
            }
            d.paras.push(p);
            if pi + 1 < total {
                d.gaps.push(vec![GapLine::Empty]);
            }
            continue;
        }
        if is_src {
            p.fields.push(mk_field(t, "Source", "foo", false));
            p.fields.push(mk_field(t, "Maintainer", "Joe Example <joe@example.com>", true));
            if t.chance(1, 2) {
                let mut items = vec![];
                while t.more(items.len(), 1, 3, 1, 2) {
                    items.push(t.pick(&["A B <a@b.c>", "Zed <z@y>", "x <x@y>", "Émile <e@f>"]).to_string());
                }
                let raw = match t.below(3) {
                    0 => items.join(", "),
                    1 => items.join(",\n"),
                    _ => items.join(" ,  "),
                };
                uploaders.insert((pi, p.fields.len()), items);
                p.fields.push(mk_field(t, "Uploaders", &raw, true));
            }
        } else {
            let name = bin_names.remove(t.below(bin_names.len()));
            p.fields.push(mk_field(t, "Package", name, false));
            let arch = *t.pick(&["any", "all", "linux-any"]);
            p.fields.push(mk_field(t, "Architecture", arch, true));
        }
        let pool = if is_src { SRC_REL } else { BIN_REL };
        let mut used: Vec<&str> = vec![];
        while t.more(used.len(), 0, 3, 2, 3) {
            let name = *t.pick(pool);
            if used.contains(&name) {
                continue;
            }
            used.push(name);
            let (model, text, _) = rel::gen_field(t, &ro);
            if model.items.is_empty() {
                continue;
            }
            rels.insert((pi, p.fields.len()), model);
            p.fields.push(mk_field(t, name, &text, true));
        }
        if !is_src && t.chance(1, 2) {
            p.fields.push(mk_field(t, "Description", "short\nlong line one\n.\nlong line two", true));
        }
        if t.chance(1, 3) {
            p.fields.push(mk_field(t, "Homepage", "https://example.com/x", false));
        }
        if t.chance(1, 8) {
            p.trailing_comments.push(doc::gen_comment(t, true));
        }
        d.paras.push(p);
        if pi + 1 < total {
            let mut g = vec![GapLine::Empty];
            if t.chance(1, 5) {
                g.push(GapLine::Comment(doc::gen_comment(t, true)));
            }
            if t.chance(1, 5) {
                g.push(GapLine::Empty);
            }
            d.gaps.push(g);
        }
    }
    if t.chance(1, 6) {
        d.leading.push(GapLine::Comment(doc::gen_comment(t, true)));
    }
    ControlCase { doc: d, level, indent, immediate_empty_line, one_liner, rels, uploaders }
}

pub fn labels(ctx: &mut Ctx, c: &ControlCase) {
    ctx.label(match c.level {
        CLevel::Control => "level:Control",
        CLevel::Source => "level:control-Source",
        CLevel::Binary(_) => "level:control-Binary",
    });
    ctx.label_if(c.rels.values().any(|r| r.has_substvar()), "control:substvar-in-relation-field");
    ctx.label_if(!c.uploaders.is_empty(), "control:uploaders");
    ctx.label_if(!c.rels.is_empty(), "control:relation-field");
    let src = c.doc.paras.iter().position(|p| p.fields[0].name == "Source").unwrap_or(0);
    ctx.label_if(src != 0, "control:source-not-first");
    ctx.label_if(c.doc.paras.iter().any(|p| p.fields[0].name == "X-Note"), "control:paragraph-of-neither-kind");
    ctx.nontrivial = (c.doc.paras.len() >= 2 || c.doc.has_comment()) && (!c.rels.is_empty() || !c.uploaders.is_empty());
}

pub fn check(c: &ControlCase) -> CheckResult {
    let text = c.doc.render().text;
    let mut control = match Control::from_str(&text) {
        Ok(x) => x,
        Err(e) => return fail("start-parses", format!("well-formed control file rejected: {:?}", e.to_string())),
    };
    // which paragraphs are reformatted, in which expected order
    let src_idx = c.doc.paras.iter().position(|p| p.fields[0].name == "Source").unwrap();
    let (out, order): (String, Vec<usize>) = match c.level {
        CLevel::Control => {
            control.wrap_and_sort(c.indent, c.immediate_empty_line, c.one_liner);
            let mut bins: Vec<usize> = (0..c.doc.paras.len()).filter(|i| c.doc.paras[*i].fields[0].name == "Package").collect();
            bins.sort_by_key(|i| c.doc.paras[*i].fields[0].value());
            let mut order = vec![src_idx];
            order.extend(bins);
            let out = control.to_string();
            if c.doc.paras.iter().any(|p| p.fields[0].name == "X-Note") {
                // paragraphs of neither kind: identify every output paragraph by its first field; the source and binary
                // paragraphs must appear in the prescribed order relative to each other, the others anywhere
                let sc = scan(&out);
                let mut actual: Vec<usize> = vec![];
                for sp in &sc.paras {
                    let first = sp.fields.first().map(|f| (f.name.clone(), f.raw_lines.first().map(|l| tw(l).to_string()).unwrap_or_default()));
                    match first.and_then(|(n, v)| c.doc.paras.iter().position(|p| p.fields[0].name == n && tw(&p.fields[0].lines[0]) == v)) {
                        Some(pi) if !actual.contains(&pi) => actual.push(pi),
                        _ => return fail("paragraph-count", format!("an output paragraph of {:?} is not one of the input paragraphs (or occurs twice)", out)),
                    }
                }
                ensure_eq!(actual.len(), c.doc.paras.len(), "paragraph-count", "paragraphs in {:?}", out);
                let keyed: Vec<usize> = actual.iter().cloned().filter(|pi| c.doc.paras[*pi].fields[0].name != "X-Note").collect();
                ensure_eq!(keyed, order, "control-paragraph-order-or-fields", "source first, then binaries by name (paragraphs of neither kind anywhere) in {:?}", out);
                order = actual;
            }
            (out, order)
        }
        CLevel::Source => {
            let mut s = match control.source() {
                Some(s) => s,
                None => return fail("source-found", "Control::source() does not find the Source paragraph".into()),
            };
            s.wrap_and_sort(c.indent, c.immediate_empty_line, c.one_liner);
            (s.to_string(), vec![src_idx])
        }
        CLevel::Binary(k) => {
            let bins: Vec<usize> = (0..c.doc.paras.len()).filter(|i| c.doc.paras[*i].fields[0].name == "Package").collect();
            let k = k % bins.len();
            let mut b = match control.binaries().nth(k) {
                Some(b) => b,
                None => return fail("binary-found", format!("Control::binaries() does not yield binary {}", k)),
            };
            b.wrap_and_sort(c.indent, c.immediate_empty_line, c.one_liner);
            (b.as_deb822().to_string(), vec![bins[k]])
        }
    };
    check_out(c, &text, &out, &order)?;
    // idempotence on the live object and on the re-read
    if c.level == CLevel::Control {
        control.wrap_and_sort(c.indent, c.immediate_empty_line, c.one_liner);
        ensure_eq!(control.to_string(), out, "idempotent-live", "a second Control::wrap_and_sort changes the text");
        let mut re = Control::from_str(&out).map_err(|e| crate::Failure { assertion: "result-parses".into(), message: e.to_string() })?;
        re.wrap_and_sort(c.indent, c.immediate_empty_line, c.one_liner);
        ensure_eq!(re.to_string(), out, "idempotent-reread", "Control::wrap_and_sort on the re-read result changes the text");
    }
    Ok(())
}

fn check_out(c: &ControlCase, text: &str, out: &str, order: &[usize]) -> CheckResult {
    let re = match Deb822::from_str(out) {
        Ok(d) => d,
        Err(e) => return fail("result-parses", format!("the reformatted control file {:?} is rejected: {:?}", out, e.to_string())),
    };
    let sc = scan(out);
    ensure!(sc.errors.is_empty(), "result-well-formed", "reformatted text {:?} has malformed lines {:?}", out, sc.errors);
    ensure_eq!(sc.paras.len(), order.len(), "paragraph-count", "paragraphs in {:?}", out);
    ensure_eq!(re.paragraphs().count(), order.len(), "paragraph-count", "paragraphs (re-read) in {:?}", out);
    for (k, (sp, pi)) in sc.paras.iter().zip(order.iter()).enumerate() {
        let p = &c.doc.paras[*pi];
        let names: Vec<&String> = sp.fields.iter().map(|f| &f.name).collect();
        let want_names: Vec<&String> = p.fields.iter().map(|f| &f.name).collect();
        ensure_eq!(names, want_names, "control-paragraph-order-or-fields", "output paragraph {} should be original paragraph {} (source first, binaries by name) in {:?}", k, pi, out);
        for (fi, (sf, f)) in sp.fields.iter().zip(p.fields.iter()).enumerate() {
            let got_lines: Vec<String> = sf.raw_lines.iter().map(|l| tw(l).to_string()).filter(|l| !l.is_empty()).collect();
            if let Some(model) = c.rels.get(&(*pi, fi)) {
                let original = f.lines.join("\n");
                // a value the library's relation reader cannot read is left as it is; everything generated here is readable
                crate::props::c13::check_normalised(model, &original, &got_lines.join("\n"), "Control::wrap_and_sort")?;
                ensure!(got_lines.len() <= 1, "relation-field-single-line", "normalised relation field {:?} spans several lines: {:?}", f.name, got_lines);
            } else if let Some(items) = c.uploaders.get(&(*pi, fi)) {
                let got_items: Vec<String> = got_lines.iter().map(|l| l.trim_end_matches(',').to_string()).map(|l| tw(&l).to_string()).collect();
                ensure_eq!(&got_items, items, "uploaders-items", "Uploaders of {:?}", out);
            } else {
                let want: Vec<String> = f.lines.iter().map(|l| tw(l).to_string()).filter(|l| !l.is_empty()).collect();
                ensure_eq!(got_lines, want, "other-field-unchanged", "field {:?} in {:?}", f.name, out);
            }
            let n = match c.indent {
                Indentation::Spaces(n) => n as usize,
                Indentation::FieldNameLength => sf.name.len(),
            };
            for ind in &sf.indents {
                ensure!(*ind == " ".repeat(n), "indentation", "continuation line of {:?} indented by {:?}, expected {} spaces in {:?}", sf.name, ind, n, out);
            }
        }
        // live == re-read for the paragraph content
    }
    for w in sc.paras.windows(2) {
        let between = &out[w[0].end..w[1].start];
        let blanks = between.split_inclusive('\n').filter(|l| *l == "\n").count();
        ensure!(blanks == 1, "paragraph-separation", "paragraphs separated by {} empty lines in {:?}", blanks, out);
    }
    // comments: every comment line of the reformatted paragraphs is kept on a line of its own
    let mut want: Vec<String> = vec![];
    let whole = c.level == CLevel::Control;
    if whole {
        for g in c.doc.leading.iter().chain(c.doc.gaps.iter().flatten()).chain(c.doc.trailing.iter()) {
            if let GapLine::Comment(x) = g {
                want.push(x.clone());
            }
        }
    }
    for pi in order {
        let p = &c.doc.paras[*pi];
        for (fi, f) in p.fields.iter().enumerate() {
            if !whole && fi == 0 {
                continue;
            }
            want.extend(f.comments_before.iter().cloned());
        }
        want.extend(p.trailing_comments.iter().cloned());
    }
    let mut got: Vec<String> = sc.comments.iter().map(|x| x.1.clone()).collect();
    got.sort();
    want.sort();
    ensure_eq!(got, want, "comments-kept", "comment lines of {:?} (input {:?})", out, text);
    Ok(())
}

pub fn render(c: &ControlCase) -> String {
    format!("control file {:?}\nlevel {:?} indent {:?} immediate_empty_line {} one_liner {:?}", c.doc.render().text, c.level, c.indent, c.immediate_empty_line, c.one_liner)
}
