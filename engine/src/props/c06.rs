//! C06 Lossy and lossless deb822 readers agree on content.
use crate::gen::{doc, text};
use crate::props::c01;
use crate::tape::Tape;
use crate::{ensure, ensure_eq, fail, Budget, CheckResult, Ctx, PropImpl, Space, Tier};
use deb822_lossless::{lossy, Deb822};
use std::str::FromStr;

pub struct C06;

pub struct Case {
    pub text: String,
    /// Some(model) when the text is a rendering of a well-formed document (joint-acceptance clause)
    pub model: Option<Vec<Vec<(String, Vec<String>)>>>,
    pub origin: &'static str,
}

fn enum_len(tier: Tier) -> u32 {
    match tier {
        Tier::Quick => 6,
        Tier::Thorough => 7,
    }
}

fn nonblank(v: &str) -> Vec<String> {
    v.split('\n').filter(|l| !l.trim().is_empty()).map(|l| l.to_string()).collect()
}

type Content = Vec<Vec<(String, Vec<String>)>>;

fn lossy_content(d: &lossy::Deb822) -> Content {
    d.iter().map(|p| p.iter().map(|(k, v)| (k.to_string(), nonblank(v))).collect()).collect()
}
fn lossless_content(d: &Deb822) -> Content {
    d.paragraphs().map(|p| p.items().map(|(k, v)| (k, nonblank(&v))).collect()).collect()
}

pub fn check_text(ctx: &mut Ctx, s: &str, model: Option<&Content>) -> CheckResult {
    // a panic of the lossy reader on arbitrary text is C02's violation; here it only means "not accepted"
    let lossy_res = std::panic::catch_unwind(|| lossy::Deb822::from_str(s));
    let lossless_res = Deb822::from_str(s);
    if let Some(m) = model {
        let ly = match lossy_res {
            Ok(Ok(d)) => d,
            Ok(Err(e)) => return fail("lossy-accepts-well-formed", format!("the lossy reader rejects a well-formed document: {}", e)),
            Err(_) => return fail("lossy-accepts-well-formed", "the lossy reader panics on a well-formed document".into()),
        };
        let ll = match lossless_res {
            Ok(d) => d,
            Err(e) => return fail("lossless-accepts-well-formed", format!("the lossless reader rejects a well-formed document: {:?}", e.to_string())),
        };
        ensure_eq!(lossy_content(&ly), *m, "lossy-content-equals-model", "lossy reader content differs from what was written");
        ensure_eq!(lossless_content(&ll), *m, "lossless-content-equals-model", "lossless reader content differs from what was written");
        ctx.label("both-accept");
        check_paragraph_reader(s, &ly)?;
        return Ok(());
    }
    let lossy_ok = match lossy_res {
        Ok(Ok(d)) => Some(d),
        Ok(Err(_)) => None,
        Err(_) => {
            ctx.label("lossy-reader-panicked(C02)");
            None
        }
    };
    match (&lossy_ok, &lossless_res) {
        (Some(ly), Ok(ll)) => {
            ctx.label("both-accept");
            let a = lossy_content(ly);
            let b = lossless_content(ll);
            ctx.nontrivial = b.len() >= 2 || s.lines().any(|l| l.starts_with(' ') || l.starts_with('\t') || l.starts_with('#'));
            ensure_eq!(a.len(), b.len(), "paragraph-count", "lossy vs lossless number of paragraphs");
            for (i, (pa, pb)) in a.iter().zip(b.iter()).enumerate() {
                let na: Vec<&String> = pa.iter().map(|x| &x.0).collect();
                let nb: Vec<&String> = pb.iter().map(|x| &x.0).collect();
                ensure_eq!(na, nb, "field-names", "lossy vs lossless field names of paragraph {}", i);
                for (fa, fb) in pa.iter().zip(pb.iter()) {
                    ensure_eq!(fa.1, fb.1, "value-lines", "lossy vs lossless non-blank value lines of field {:?} in paragraph {}", fa.0, i);
                }
            }
        }
        (Some(_), Err(_)) => ctx.label("only-lossy-accepts"),
        (None, Ok(_)) => ctx.label("only-lossless-accepts"),
        (None, Err(_)) => ctx.label("both-reject"),
    }
    if let Some(ly) = &lossy_ok {
        check_paragraph_reader(s, ly)?;
    }
    Ok(())
}

fn check_paragraph_reader(s: &str, doc: &lossy::Deb822) -> CheckResult {
    // the same text through the io::Read entry point of the lossy reader: the same document
    match std::panic::catch_unwind(|| lossy::Deb822::from_reader(s.as_bytes())) {
        Ok(Ok(d2)) => {
            let a: Vec<&lossy::Paragraph> = doc.iter().collect();
            let b: Vec<&lossy::Paragraph> = d2.iter().collect();
            ensure!(a == b, "lossy-from-reader", "lossy::Deb822::from_reader(bytes) gives {:?}, from_str gives {:?}", lossy_content(&d2), lossy_content(doc));
        }
        Ok(Err(e)) => return fail("lossy-from-reader", format!("lossy::Deb822::from_reader(bytes) rejects a text that from_str accepts: {}", e)),
        Err(_) => return fail("lossy-from-reader", "lossy::Deb822::from_reader(bytes) panics on a text that from_str accepts".into()),
    }
    if let Ok(Ok(p)) = std::panic::catch_unwind(|| lossy::Paragraph::from_str(s)) {
        let first = doc.iter().next();
        ensure!(first == Some(&p), "lossy-paragraph-is-first", "lossy::Paragraph::from_str returned {:?}, the document's first paragraph is {:?}", p, first);
    }
    Ok(())
}

impl PropImpl for C06 {
    type Case = Case;
    fn id(&self) -> &'static str {
        "C06"
    }
    fn rule(&self) -> String {
        "cases are texts: (E) every string of length <= L over the 14 class representatives of C01 (L=6 quick, 7 thorough), random strings, mutated documents, and renderings of well-formed \
         documents (for which both readers must accept and report the generator's model). Non-trivial: both readers accept and the text has a continuation line, a comment or >= 2 paragraphs \
         (well-formed renderings: by C03's rule). Distinct by text hash.".into()
    }
    fn expected_labels(&self) -> Vec<&'static str> {
        vec!["both-accept", "both-reject", "comment:after-last-field", "comment:before-first-field", "comment:between-fields", "comment:between-paragraphs", "comment:end", "comment:top", "continuation-starts-with-colon", "continuation-starts-with-dash", "duplicate-name", "empty-first-line", "empty-value", "has:CR", "multi-line-value", "no-final-newline", "no-paragraph", "no-space-after-colon", "non-ascii-value", "only-lossless-accepts", "origin:enum", "origin:mutated-doc", "origin:multi-byte-character-across-a-block-boundary", "origin:random", "origin:well-formed", "paragraphs>=2", "several-empty-lines", "tab-whitespace", "trailing-whitespace-in-line"]
    }
    fn budget(&self, tier: Tier) -> Budget {
        Budget { cases_per_lane: if tier == Tier::Quick { 20000 } else { 100_000 }, tape_max: 600, cpu_s: 10 }
    }
    fn spaces(&self, tier: Tier) -> Vec<Space> {
        let l = enum_len(tier);
        vec![Space { name: format!("all strings of length <= {} over 14 class representatives", l), size: text::space_size(c01::ALPHABET.len() as u64, l), exhaustive: true }]
    }
    fn from_enum(&self, _ctx: &mut Ctx, tier: Tier, _space: usize, index: u64) -> Case {
        Case { text: text::nth_string(c01::ALPHABET, enum_len(tier), index), model: None, origin: "enum" }
    }
    fn from_text(&self, _ctx: &mut Ctx, t: &str) -> Option<Case> {
        Some(Case { text: t.to_string(), model: None, origin: "text" })
    }
    fn decode(&self, ctx: &mut Ctx, t: &mut Tape) -> Case {
        if t.chance(1, 40) && !ctx.light {
            // a long document with a multi-byte character across a block boundary (readers that take an io::Read)
            return Case { text: c01::block_boundary_doc(t), model: None, origin: "block-boundary" };
        }
        match t.below(4) {
            0 => {
                let text = text::weighted_text(t, c01::WEIGHTED, 300);
                ctx.dup_of_enum = text::in_space(c01::ALPHABET, 6, &text);
                Case { text, model: None, origin: "random" }
            }
            1 => {
                let d = doc::gen_doc(t, &doc::DocOpts::default());
                let base = d.render().text;
                Case { text: text::mutate(t, &base, c01::WEIGHTED, 4), model: None, origin: "mutated-doc" }
            }
            _ => {
                let d = doc::gen_doc(t, &doc::DocOpts::default());
                let model = d.paras.iter().map(|p| p.fields.iter().map(|f| (f.name.clone(), f.nonblank_lines())).collect()).collect();
                ctx.nontrivial = crate::props::c03::doc_nontrivial(&d);
                crate::props::c03::doc_labels(ctx, &d);
                Case { text: d.render().text, model: Some(model), origin: "well-formed" }
            }
        }
    }
    fn classify(&self, ctx: &mut Ctx, case: &Case) {
        ctx.set_hash(&case.text);
        ctx.label(match case.origin {
            "enum" => "origin:enum",
            "mutated-doc" => "origin:mutated-doc",
            "block-boundary" => "origin:multi-byte-character-across-a-block-boundary",
            "well-formed" => "origin:well-formed",
            "text" => "origin:text",
            _ => "origin:random",
        });
        ctx.label_if(case.text.contains('\r'), "has:CR");
    }
    fn check(&self, ctx: &mut Ctx, case: &Case) -> CheckResult {
        check_text(ctx, &case.text, case.model.as_ref())
    }
    fn render(&self, case: &Case) -> String {
        format!("[{}] {:?}", case.origin, case.text)
    }
}
