//! C17 Copyright lookup: last matching Files paragraph wins; DEP-5 globs and licences.
use crate::tape::Tape;
use crate::{ensure, ensure_eq, fail, Budget, CheckResult, Ctx, PropImpl, Space, Tier};
use debian_copyright::{lossless, lossy, License};
use std::path::Path;
use std::str::FromStr;

pub struct C17;

#[derive(Debug, Clone)]
pub enum Body {
    /// odd_sep: which white space separates patterns that share a line: 0 blank, 1 tab, 2 two blanks, 3 U+000B, 4 U+00A0, 5 U+3000
    Files { patterns: Vec<String>, sep_newline: Vec<bool>, license: String, text: Option<Vec<String>>, marker: String, odd_sep: u8 },
    License { name: String, text: Vec<String> },
}

#[derive(Debug, Clone)]
pub enum Case {
    Lookup { body: Vec<Body>, paths: Vec<String> },
    /// one Files paragraph with one pattern, looked up with every path of the enumerated path space
    Grid { pattern: String, path_len: u32 },
    /// text that does not start with a Format field
    NotMachineReadable(String),
}

/// Reference matcher written from the statement: whole path; '*' any run of characters (incl. '/'),
/// '?' exactly one character, backslash makes the following '*', '?' or '\' literal, everything else itself.
pub fn glob_match(pat: &[char], path: &[char]) -> bool {
    match pat.first() {
        None => path.is_empty(),
        Some('*') => (0..=path.len()).any(|k| glob_match(&pat[1..], &path[k..])),
        Some('?') => !path.is_empty() && glob_match(&pat[1..], &path[1..]),
        Some('\\') => pat.len() >= 2 && !path.is_empty() && path[0] == pat[1] && glob_match(&pat[2..], &path[1..]),
        Some(c) => !path.is_empty() && path[0] == *c && glob_match(&pat[1..], &path[1..]),
    }
}

fn matches(pat: &str, path: &str) -> bool {
    glob_match(&pat.chars().collect::<Vec<_>>(), &path.chars().collect::<Vec<_>>())
}

fn render(body: &[Body]) -> String {
    let mut t = String::from("Format: https://www.debian.org/doc/packaging-manuals/copyright-format/1.0/\nUpstream-Name: x\n");
    for b in body {
        t.push('\n');
        match b {
            Body::Files { patterns, sep_newline, license, text, marker, odd_sep } => {
                t.push_str("Files:");
                for (i, p) in patterns.iter().enumerate() {
                    if i > 0 && sep_newline[i] {
                        t.push_str("\n ");
                    } else if i > 0 {
                        t.push_str([" ", "\t", "  ", "\u{b}", "\u{a0}", "\u{3000}"][*odd_sep as usize % 6]);
                    } else {
                        t.push(' ');
                    }
                    t.push_str(p);
                }
                t.push_str("\nCopyright: 2024 Someone\n");
                t.push_str(&format!("License: {}\n", license));
                if let Some(lines) = text {
                    for l in lines {
                        t.push_str(&format!(" {}\n", l));
                    }
                }
                t.push_str(&format!("Comment: {}\n", marker));
            }
            Body::License { name, text } => {
                t.push_str(&format!("License: {}\n", name));
                for l in text {
                    t.push_str(&format!(" {}\n", l));
                }
            }
        }
    }
    t
}

fn expected(body: &[Body], path: &str) -> (Option<String>, Option<License>) {
    let hit = body.iter().filter_map(|b| if let Body::Files { patterns, license, text, marker, .. } = b { Some((patterns, license, text, marker)) } else { None }).filter(|f| f.0.iter().any(|p| matches(p, path))).last();
    match hit {
        None => (None, None),
        Some((_, license, text, marker)) => {
            let lic = match text {
                Some(lines) => Some(License::Named(license.clone(), lines.join("\n"))),
                None => body.iter().find_map(|b| match b {
                    Body::License { name, text } if name == license => Some(License::Named(name.clone(), text.join("\n"))),
                    _ => None,
                }),
            };
            (Some(marker.clone()), lic)
        }
    }
}

fn lossy_marker(p: &lossy::FilesParagraph) -> Option<String> {
    p.to_string().lines().find_map(|l| l.strip_prefix("Comment: ").map(|s| s.to_string()))
}

pub fn check(ctx: &mut Ctx, case: &Case) -> CheckResult {
    match case {
        Case::NotMachineReadable(text) => {
            ensure!(matches!(lossless::Copyright::from_str(text), Err(lossless::Error::NotMachineReadable)), "gate/lossless-strict", "lossless from_str must refuse {:?} as not machine-readable", text);
            ensure!(matches!(lossless::Copyright::from_str_relaxed(text), Err(lossless::Error::NotMachineReadable)), "gate/lossless-relaxed", "lossless from_str_relaxed must refuse {:?} as not machine-readable", text);
            ensure_eq!(lossy::Copyright::from_str(text).err(), Some("Not machine readable".to_string()), "gate/lossy", "lossy from_str of {:?}", text);
            // the same gate through the readers that take a path
            let path = std::env::temp_dir().join(format!("vp-c17-{}.copyright", std::process::id()));
            if std::fs::write(&path, text).is_ok() {
                let a = lossless::Copyright::from_file(&path);
                let b = lossless::Copyright::from_file_relaxed(&path);
                let _ = std::fs::remove_file(&path);
                ensure!(matches!(a, Err(lossless::Error::NotMachineReadable)), "gate/lossless-file", "lossless from_file must refuse {:?} as not machine-readable", text);
                ensure!(matches!(b, Err(lossless::Error::NotMachineReadable)), "gate/lossless-file-relaxed", "lossless from_file_relaxed must refuse {:?} as not machine-readable", text);
            }
            Ok(())
        }
        Case::Grid { pattern, path_len } => {
            let body = vec![Body::Files { patterns: vec![pattern.clone()], sep_newline: vec![false], license: "L".into(), text: None, marker: "m0".into(), odd_sep: 0 }];
            let text = render(&body);
            let ll = lossless::Copyright::from_str(&text).map_err(|e| crate::Failure { assertion: "parse/lossless".into(), message: format!("{:?}: {}", text, e) })?;
            let ly = lossy::Copyright::from_str(&text).map_err(|e| crate::Failure { assertion: "parse/lossy".into(), message: format!("{:?}: {}", text, e) })?;
            let fp = ll.iter_files().next().ok_or_else(|| crate::Failure { assertion: "iter-files".into(), message: "no Files paragraph found".into() })?;
            for pi in 0..crate::gen::text::space_size(PATH_ALPHA.len() as u64, *path_len) {
                let path = crate::gen::text::nth_string(PATH_ALPHA, *path_len, pi);
                ctx.inner_evaluations += 1;
                let want = matches(pattern, &path);
                ensure_eq!(fp.matches(Path::new(&path)), want, "glob/lossless-matches", "pattern {:?} vs path {:?}", pattern, path);
                ensure_eq!(ll.find_files(Path::new(&path)).is_some(), want, "glob/lossless-find-files", "pattern {:?} vs path {:?}", pattern, path);
                ensure_eq!(ly.find_files(Path::new(&path)).is_some(), want, "glob/lossy-find-files", "pattern {:?} vs path {:?}", pattern, path);
            }
            Ok(())
        }
        Case::Lookup { body, paths } => {
            let text = render(body);
            let ll = match lossless::Copyright::from_str(&text) {
                Ok(c) => c,
                Err(e) => return fail("parse/lossless", format!("lossless reader rejects {:?}: {}", text, e)),
            };
            let (llr, errs) = lossless::Copyright::from_str_relaxed(&text).map_err(|e| crate::Failure { assertion: "parse/lossless-relaxed".into(), message: e.to_string() })?;
            ensure!(errs.is_empty(), "parse/lossless-relaxed", "errors {:?}", errs);
            let ly = match lossy::Copyright::from_str(&text) {
                Ok(c) => c,
                Err(e) => return fail("parse/lossy", format!("lossy reader rejects {:?}: {}", text, e)),
            };
            let nfiles = body.iter().filter(|b| matches!(b, Body::Files { .. })).count();
            let nlic = body.len() - nfiles;
            ensure_eq!(ll.iter_files().count(), nfiles, "iter-files", "number of Files paragraphs");
            ensure_eq!(ll.iter_licenses().count(), nlic, "iter-licenses", "number of stand-alone licence paragraphs");
            ensure_eq!(ly.files.len(), nfiles, "lossy-files", "lossy files");
            ensure_eq!(ly.licenses.len(), nlic, "lossy-licenses", "lossy licenses");
            // patterns as the lossless view lists them
            for (fp, b) in ll.iter_files().zip(body.iter().filter(|b| matches!(b, Body::Files { .. }))) {
                if let Body::Files { patterns, .. } = b {
                    ensure_eq!(&fp.files(), patterns, "files-list", "FilesParagraph::files()");
                }
            }
            for b in body {
                if let Body::License { name, .. } = b {
                    let first = body.iter().find_map(|x| match x {
                        Body::License { name: n, text } if n == name => Some(License::Named(n.clone(), text.join("\n"))),
                        _ => None,
                    });
                    ensure_eq!(ll.find_license_by_name(name), first, "license-by-name/lossless", "find_license_by_name({:?})", name);
                    ensure_eq!(ly.find_license_by_name(name).cloned(), first, "license-by-name/lossy", "find_license_by_name({:?})", name);
                }
            }
            for path in paths {
                let (wm, wl) = expected(body, path);
                let p = Path::new(path);
                for (view, c) in [("strict", &ll), ("relaxed", &llr)] {
                    let got = c.find_files(p).and_then(|f| f.comment());
                    ensure_eq!(got, wm, "find-files/lossless", "({}) find_files({:?}) marker in {:?}", view, path, text);
                    ensure_eq!(c.find_license_for_file(p), wl, "license-for-file/lossless", "({}) find_license_for_file({:?}) in {:?}", view, path, text);
                }
                let got = ly.find_files(p).and_then(lossy_marker);
                ensure_eq!(got, wm, "find-files/lossy", "lossy find_files({:?}) marker in {:?}", path, text);
                ensure_eq!(ly.find_license_for_file(p).cloned(), wl, "license-for-file/lossy", "lossy find_license_for_file({:?}) in {:?}", path, text);
                // FilesParagraph::matches agrees with the reference for every paragraph
                for (fp, b) in ll.iter_files().zip(body.iter().filter(|b| matches!(b, Body::Files { .. }))) {
                    if let Body::Files { patterns, .. } = b {
                        ensure_eq!(fp.matches(p), patterns.iter().any(|pt| matches(pt, path)), "files-paragraph-matches", "patterns {:?} vs path {:?}", patterns, path);
                    }
                }
                for (fp, b) in ly.files.iter().zip(body.iter().filter(|b| matches!(b, Body::Files { .. }))) {
                    if let Body::Files { patterns, .. } = b {
                        ensure_eq!(fp.matches(p), patterns.iter().any(|pt| matches(pt, path)), "files-paragraph-matches/lossy", "patterns {:?} vs path {:?}", patterns, path);
                    }
                }
            }
            Ok(())
        }
    }
}

// ------------------------------------------------------------------------------------------

const PAT_ALPHA: &[&str] = &["a", "/", ".", "*", "?", "\\*", "+"];
const PATH_ALPHA: &[&str] = &["a", "/", ".", "*", "+"];

const PAT_ATOMS: &[(u32, &str)] = &[
    (14, "a"), (6, "b"), (8, "/"), (5, "."), (8, "*"), (5, "?"), (2, "\\*"), (2, "\\?"), (2, "\\\\"), (1, "+"), (1, "("), (1, ")"), (1, "["), (1, "]"), (1, "{"), (1, "}"), (1, "^"), (1, "$"), (1, "|"),
    (1, "é"), (1, "-"), (1, "_"),
];

fn gen_pattern(t: &mut Tape) -> String {
    if t.chance(1, 3) {
        return t.pick(&["*", "debian/*", "src/*.c", "*.rs", "?", "a/b", "doc/*/README", "\\*"]).to_string();
    }
    let mut s = String::new();
    for _ in 0..t.range(1, 7) {
        s.push_str(t.weighted(PAT_ATOMS));
    }
    // a continuation line must not start with '#'; the alphabet has none, nothing to do
    s
}

const FILL: &[&str] = &["", "a", "b", "/", "ab", "a/b", ".", "x y", "é", "*", "\n", "src"];

/// A path matching `pat`: wildcards instantiated.
fn instantiate(t: &mut Tape, pat: &str) -> String {
    let mut out = String::new();
    let mut it = pat.chars();
    while let Some(c) = it.next() {
        match c {
            '*' => out.push_str(*t.pick(FILL)),
            '?' => out.push(*t.pick(&['a', '/', 'é', '.', ' '])),
            '\\' => {
                if let Some(n) = it.next() {
                    out.push(n)
                }
            }
            c => out.push(c),
        }
    }
    out
}

fn mutate_path(t: &mut Tape, p: &str) -> String {
    let mut c: Vec<char> = p.chars().collect();
    match t.below(4) {
        0 if !c.is_empty() => {
            let i = t.below(c.len());
            c.remove(i);
        }
        1 => {
            let i = t.below(c.len() + 1);
            c.insert(i, *t.pick(&['a', '/', '.', 'x', '\n', ' ']));
        }
        2 if !c.is_empty() => {
            let i = t.below(c.len());
            c[i] = *t.pick(&['b', '/', '*', '?', '\\']);
        }
        _ => c.push('~'),
    }
    c.into_iter().collect()
}

fn gen_text_lines(t: &mut Tape) -> Vec<String> {
    let mut v = vec![];
    while t.more(v.len(), 1, 3, 1, 2) {
        v.push(t.pick(&["Permission is hereby granted", ".", "text é", "GPL v3 or later", "x"]).to_string());
    }
    v
}

impl PropImpl for C17 {
    type Case = Case;
    fn id(&self) -> &'static str {
        "C17"
    }
    fn rule(&self) -> String {
        "cases are (copyright file, paths): a Format header plus 1-6 body paragraphs in any order: Files paragraphs with 1-3 patterns on one or several lines, a named licence with or without inline text, a unique \
         marker in Comment; stand-alone licence paragraphs (duplicate names occur). Patterns over letters, '/', '.', regex metacharacters, '*', '?' and the valid escapes; paths are instantiations of the patterns' \
         wildcards (fillers incl. '/', space, multi-byte, newline), mutations of them and unrelated paths. Oracle: a reference backtracking glob matcher and a reference lookup written from the statement; lossless \
         (strict and relaxed) and lossy views must agree with it. (E) every pattern of length 1-4 over {a / . * ? \\* +} x every path of length <= 3 (quick: 156 paths) / <= 4 (thorough: 781 paths) over {a / . * +} through a one-paragraph file. \
         Gate: texts not starting with 'Format:' are refused as not machine-readable by all three readers. Non-trivial: >= 2 Files paragraphs match a path, or the deciding pattern has a wildcard/escape/metacharacter, \
         or the licence comes from the stand-alone fallback.".into()
    }
    fn expected_labels(&self) -> Vec<&'static str> {
        vec!["lookup", "glob-grid", "not-machine-readable", "several-files-paragraphs-match", "no-paragraph-matches", "path-with-newline", "path-with-space", "deciding-pattern-has-escape", "deciding-pattern-has-regex-metacharacter", "licence-from-stand-alone-paragraph", "patterns-on-several-lines", "patterns-separated-by-space", "patterns-separated-by-other-white-space"]
    }
    fn budget(&self, tier: Tier) -> Budget {
        Budget { cases_per_lane: if tier == Tier::Quick { 3000 } else { 30_000 }, tape_max: 500, cpu_s: 20 }
    }
    fn spaces(&self, tier: Tier) -> Vec<Space> {
        let pl = if tier == Tier::Quick { 3 } else { 4 };
        vec![Space { name: format!("patterns of length 1-4 over 7 symbols, each against all paths of length <= {} over 5 symbols", pl), size: crate::gen::text::space_size(7, 4) - 1, exhaustive: true }]
    }
    fn from_enum(&self, _ctx: &mut Ctx, tier: Tier, _space: usize, index: u64) -> Case {
        Case::Grid { pattern: crate::gen::text::nth_string(PAT_ALPHA, 4, index + 1), path_len: if tier == Tier::Quick { 3 } else { 4 } }
    }
    fn decode(&self, _ctx: &mut Ctx, t: &mut Tape) -> Case {
        if t.chance(1, 10) {
            let good = "Format: https://www.debian.org/doc/packaging-manuals/copyright-format/1.0/\n\nFiles: *\nCopyright: x\nLicense: GPL\n";
            let text = match t.below(8) {
                0 => String::new(),
                1 => format!("\n{}", good),
                2 => format!("# comment\n{}", good),
                3 => format!("\u{feff}{}", good),
                4 => format!(" {}", good),
                5 => format!("format: x\n\n{}", &good[good.find("Files").unwrap()..]),
                6 => "This copyright file is not machine readable.\n".to_string(),
                _ => format!("Upstream-Name: x\n{}", good),
            };
            return Case::NotMachineReadable(text);
        }
        let names = ["GPL-3+", "MIT", "Expat", "BSD-3-clause"];
        let mut body = vec![];
        let mut k = 0;
        while t.more(body.len(), 1, 6, 3, 4) {
            if t.chance(1, 3) {
                body.push(Body::License { name: t.pick(&names).to_string(), text: gen_text_lines(t) });
            } else {
                let mut patterns = vec![gen_pattern(t)];
                let mut sep = vec![false];
                while t.more(patterns.len(), 1, 3, 1, 3) {
                    patterns.push(gen_pattern(t));
                    sep.push(t.chance(1, 3));
                }
                let text = if t.chance(1, 3) { Some(gen_text_lines(t)) } else { None };
                let odd_sep = if t.chance(1, 8) { t.range(1, 5) as u8 } else { 0 };
                body.push(Body::Files { patterns, sep_newline: sep, license: t.pick(&names).to_string(), text, marker: format!("marker-{}", k), odd_sep });
                k += 1;
            }
        }
        let pats: Vec<String> = body.iter().flat_map(|b| if let Body::Files { patterns, .. } = b { patterns.clone() } else { vec![] }).collect();
        let mut paths = vec![];
        while t.more(paths.len(), 1, 4, 3, 4) {
            let p = if !pats.is_empty() && t.chance(4, 5) {
                let chosen = t.pick(&pats).clone();
                let base = instantiate(t, &chosen);
                if t.chance(1, 3) { mutate_path(t, &base) } else { base }
            } else {
                t.pick(&["README", "debian/rules", "src/main.c", "", "a b", "x/é"]).to_string()
            };
            paths.push(p);
        }
        Case::Lookup { body, paths }
    }
    fn classify(&self, ctx: &mut Ctx, case: &Case) {
        ctx.set_hash(&format!("{:?}", case));
        match case {
            Case::NotMachineReadable(_) => ctx.label("not-machine-readable"),
            Case::Grid { pattern, .. } => {
                ctx.label("glob-grid");
                ctx.nontrivial = pattern.contains(|c| "*?\\+.".contains(c));
            }
            Case::Lookup { body, paths } => {
                ctx.label("lookup");
                for path in paths {
                    let matching: Vec<&Body> = body.iter().filter(|b| if let Body::Files { patterns, .. } = b { patterns.iter().any(|p| matches(p, path)) } else { false }).collect();
                    ctx.label_if(matching.len() >= 2, "several-files-paragraphs-match");
                    ctx.label_if(matching.is_empty(), "no-paragraph-matches");
                    ctx.label_if(path.contains('\n'), "path-with-newline");
                    ctx.label_if(path.contains(' '), "path-with-space");
                    if let Some(Body::Files { patterns, text, .. }) = matching.last() {
                        let deciding = patterns.iter().find(|p| matches(p, path)).unwrap();
                        let special = deciding.contains(|c| "*?\\+()[]{}^$|.".contains(c));
                        ctx.label_if(deciding.contains('\\'), "deciding-pattern-has-escape");
                        ctx.label_if(deciding.contains(|c| "+()[]{}^$|".contains(c)), "deciding-pattern-has-regex-metacharacter");
                        let (_, lic) = expected(body, path);
                        let fallback = text.is_none() && lic.is_some();
                        ctx.label_if(fallback, "licence-from-stand-alone-paragraph");
                        ctx.label_if(text.is_none() && lic.is_none(), "licence-not-found");
                        if matching.len() >= 2 || special || fallback {
                            ctx.nontrivial = true;
                        }
                    }
                }
                ctx.label_if(body.iter().any(|b| matches!(b, Body::Files { sep_newline, .. } if sep_newline.iter().any(|x| *x))), "patterns-on-several-lines");
                ctx.label_if(body.iter().any(|b| matches!(b, Body::Files { patterns, odd_sep, sep_newline, .. } if *odd_sep >= 3 && patterns.len() > 1 && sep_newline.iter().skip(1).any(|x| !*x))), "patterns-separated-by-other-white-space");
                ctx.label_if(body.iter().any(|b| matches!(b, Body::Files { patterns, sep_newline, .. } if patterns.len() > 1 && sep_newline.iter().skip(1).any(|x| !*x))), "patterns-separated-by-space");
            }
        }
    }
    fn check(&self, ctx: &mut Ctx, case: &Case) -> CheckResult {
        check(ctx, case)
    }
    fn render(&self, case: &Case) -> String {
        match case {
            Case::Lookup { body, paths } => format!("copyright file {:?}\npaths {:?}", render(body), paths),
            c => format!("{:?}", c),
        }
    }
}
